package c12

// C12 - Failed/static EVM frames leave no trace; per-transaction scratch state does not leak.
//
// Domain 1 (TestFrameTrees): generated trees of CALL/CALLCODE/DELEGATECALL/STATICCALL/CREATE/CREATE2
// frames, compiled to bytecode by the assembler in asm_test.go. Every frame writes the status the
// EVM reported for each child into a report that travels upwards (return data / deployed code), so
// the harness knows which frames the EVM declared failed even under tight gas. Oracles:
//   A. reference fold (model_test.go): effects of a frame count iff it and all its ancestors
//      succeeded and no ancestor is static; frames whose program must fail may not report success;
//   B. pruning: the same tree with every failed frame removed must produce the same state
//      (accessors, existence, state root);
//   C. per failing frame: state right after it returns == state right before it was entered
//      (two truncated runs).
// Domain 2 (TestTxSequences): 2-5 transactions on one AccountDB executed like core/vmexecutor.go;
// after Prepare the scratch state of earlier transactions must be gone and every receipt carries
// exactly its own logs.

import (
	"flag"
	"fmt"
	"os"
	"sort"
	"strings"
	"testing"

	"com.tuntun.rangers/node/src/common"
	"pgregory.net/rapid"

	"verifharness/internal/evmh"
	"verifharness/internal/stats"
)

func TestMain(m *testing.M) {
	stats.SetRule("frame trees: depth<=4, fan-out<=3, <=14 frames of kind CALL/CALLCODE/DELEGATECALL/STATICCALL/CREATE/CREATE2 with value, gas operand " +
		"(budget/all/tight %), effects SSTORE/TSTORE/LOG0-4/value transfer/CREATE nonce bump/SELFDESTRUCT/code deposit and outcome return/stop/selfdestruct/" +
		"revert/revert+data/invalid/out-of-gas (memory, loop)/stack underflow/bad jump/code-store-out-of-gas/max-code-size/write-in-static; tx sequences: 2-5 " +
		"transactions (trees or TLOAD observers) on one AccountDB. non-trivial = a reached frame that failed after performing >=1 effect or child frame, or a " +
		"static frame with a state-modifying descendant (sequences: a later transaction follows one that used TSTORE/CREATE/LOG); distinct by tree shape " +
		"(kinds, outcomes, step kinds, reported statuses)")
	stats.Assume("fork configuration: every ProposalNNNBlock = 0 (all proposals active), block height 1000; balances live in the storage of the zero address (no ERC20 binding)")
	stats.Assume("a frame 'failed' iff the EVM reported failure to its parent (status word 0 / error returned to the caller); statuses are read from a report the generated programs pass upwards")
	stats.Assume("CREATE/CREATE2 addresses are derived by the harness (Yellow Paper / EIP-1014) with its own Keccak and RLP")
	stats.Assume("receipt logs are AccountDB.GetLogs(txHash) (proposal 013 path); the logs returned by evm.Call are not asserted")
	flag.Parse()
	guardDeposit = stats.IsKnown("F-C12-b")
	if *execMode {
		if err := bootNode(); err != nil {
			fmt.Println("VERIF-INCONCLUSIVE boot:", err)
			os.Exit(1)
		}
		code := m.Run()
		stats.Flush("C12")
		execNode.Stop()
		os.Exit(code)
	}
	evmh.Boot()
	stats.Main(m, "C12")
}

// ---------- generator ----------

type gen struct {
	t        *rapid.T
	nodes    int
	maxNodes int
	maxDepth int
	noCSOOG  bool // steer around F-C12-b
	auth     bool // generate AUTHCALL steps
	steered  bool
}

var childKinds = []fkind{kCall, kCall, kCall, kCallCode, kDelegate, kDelegate, kStatic, kStatic, kCreate, kCreate, kCreate2, kCreate2}

// precompileLeaf: a call to one of the precompiled contracts 0x01..0x12, mostly a CALL with value,
// with the stipend only / too little / ample gas and empty / well-shaped / rejected input.
func (g *gen) precompileLeaf() *node {
	t := g.t
	g.nodes++
	n := &node{out: oReturn}
	n.pre = rapid.SampledFrom([]int{1, 1, 1, 5, 6, 6, 7, 7, 7, 8, 8, 8, 9, 9, 9, 2, 3, 4, 10, 11, 12, 13, 14, 15, 16, 17, 18}).Draw(t, "precompile")
	n.kind = rapid.SampledFrom([]fkind{kCall, kCall, kCall, kCall, kCall, kCallCode, kDelegate, kStatic}).Draw(t, "preKind")
	if n.kind == kCall || n.kind == kCallCode {
		n.value = uint64(rapid.SampledFrom([]int{1, 1, 1, 2, 3, 0}).Draw(t, "preValue"))
	}
	switch rapid.IntRange(0, 5).Draw(t, "preGas") {
	case 0, 1:
		n.gasArg = 0 // the 2300 stipend only
	case 2:
		if c := preMinCost[n.pre]; c > 2400 {
			n.gasArg = c - 2301 - uint64(rapid.IntRange(0, 50).Draw(t, "below")) // just below the price even with the stipend
		} else {
			n.gasArg = uint64(rapid.IntRange(0, 40).Draw(t, "tiny"))
		}
	default:
		n.gasArg = 600_000
	}
	n.preInput = rapid.SampledFrom([]int{0, 1, 1, 1, 2, 2, 3}).Draw(t, "preInput")
	return n
}

func (g *gen) node(kind fkind, depth int, static bool) *node {
	static = static || kind == kStatic
	t := g.t
	g.nodes++
	n := &node{kind: kind}
	switch rapid.IntRange(0, 9).Draw(t, "valueClass") {
	case 0, 1, 2:
		n.value = uint64(rapid.IntRange(1, 3).Draw(t, "value"))
	case 3:
		if rapid.IntRange(0, 2).Draw(t, "hugeValue") == 0 {
			n.value = 2000 // more than any contract owns
		}
	}
	if kind == kDelegate || kind == kStatic {
		n.value = 0
	}
	if !kind.creates() {
		switch rapid.IntRange(0, 9).Draw(t, "gasMode") {
		case 0:
			n.gasMode = gasAll
		case 1, 2:
			n.gasMode = gasTight
			n.tightPct = uint64(rapid.SampledFrom([]int{5, 20, 40, 60, 75, 85, 95}).Draw(t, "tightPct"))
		}
	}
	nsteps := rapid.IntRange(0, 6).Draw(t, "nsteps")
	if depth == 1 {
		nsteps = rapid.IntRange(2, 7).Draw(t, "rootSteps")
	} else if static && rapid.IntRange(0, 3).Draw(t, "staticFocus") > 0 {
		nsteps = rapid.IntRange(1, 2).Draw(t, "staticSteps") // a single state-modifying opcode decides the frame
	}
	nchildren, npre := 0, 0
	for i := 0; i < nsteps; i++ {
		k := rapid.IntRange(0, 13).Draw(t, "stepKind")
		switch {
		case k <= 1:
			n.steps = append(n.steps, step{k: sSstore, slot: uint64(rapid.IntRange(0, nSlots-1).Draw(t, "slot")), val: uint64(rapid.IntRange(0, 9).Draw(t, "val"))})
		case k <= 3:
			n.steps = append(n.steps, step{k: sTstore, slot: uint64(rapid.IntRange(0, nSlots-1).Draw(t, "slot")), val: uint64(rapid.IntRange(0, 9).Draw(t, "val"))})
		case k <= 5:
			nt := rapid.IntRange(0, 4).Draw(t, "ntopics")
			s := step{k: sLog, data: uint64(rapid.IntRange(1, 1<<30).Draw(t, "logdata"))}
			for j := 0; j < nt; j++ {
				s.topics = append(s.topics, uint64(rapid.IntRange(0, 1<<20).Draw(t, "topic")))
			}
			n.steps = append(n.steps, s)
		case (k == 7 || k == 8) && g.auth:
			n.steps = append(n.steps, step{k: sAuthCall, to: rapid.IntRange(0, len(eoas)-1).Draw(t, "to"), amount: uint64(rapid.IntRange(0, 3).Draw(t, "amount"))})
		case k >= 12:
			if g.nodes < g.maxNodes+4 {
				n.steps = append(n.steps, step{k: sChild, child: g.precompileLeaf()})
				npre++ // its status travels in the report, so the frame must RETURN it
			}
		case k == 6:
			n.steps = append(n.steps, step{k: sTransfer, to: rapid.IntRange(0, len(eoas)-1).Draw(t, "to"), amount: uint64(rapid.IntRange(1, 4).Draw(t, "amount"))})
		default:
			if depth < g.maxDepth && g.nodes < g.maxNodes && nchildren < 3 {
				nchildren++
				ck := rapid.SampledFrom(childKinds).Draw(t, "kind")
				n.steps = append(n.steps, step{k: sChild, child: g.node(ck, depth+1, static)})
			}
		}
	}
	// outcome
	o := rapid.IntRange(0, 19).Draw(t, "outcome")
	if static && depth > 1 && o > 9 && rapid.Bool().Draw(t, "staticReturns") {
		o = 0
	}
	if depth == 1 && o > 8 && rapid.IntRange(0, 2).Draw(t, "rootMostlyReturns") > 0 {
		o = 0
	}
	switch {
	case o <= 8:
		n.out = oReturn
	case o == 9:
		n.out = oSelfdestruct
		if nchildren+npre > 0 {
			n.out = oReturn
		}
	case o == 10:
		n.out = oStop
		if nchildren+npre > 0 || kind.creates() {
			n.out = oReturn
		}
	case o <= 12:
		n.out = oRevert
	case o == 13:
		n.out = oRevertData
	case o == 14:
		n.out = oInvalid
	case o == 15:
		n.out = oOOGMem
	case o == 16:
		n.out = oOOGLoop
	case o == 17:
		n.out = outcome(rapid.SampledFrom([]int{int(oUnderflow), int(oBadJump)}).Draw(t, "misc"))
	default:
		n.out = oReturn
		if kind.creates() {
			if o == 18 {
				n.out = oCodeStoreOOG
			} else {
				n.out = oMaxCode
			}
		}
	}
	if kind.creates() && n.out != oCodeStoreOOG && rapid.IntRange(0, 4).Draw(t, "csoog") == 0 {
		n.out = oCodeStoreOOG
	}
	if n.out == oCodeStoreOOG && g.noCSOOG {
		n.out = oMaxCode
		g.steered = true
	}
	n.benef = rapid.IntRange(0, len(eoas)-1).Draw(t, "benef")
	n.keep = uint64(rapid.SampledFrom([]int{150_000, 700_000, 2_000_000, 6_000_000, 20_000_000}).Draw(t, "keep"))
	n.deposit = rapid.SampledFrom([]int{0, 0, 1, 5, 40, 300, 2000}).Draw(t, "deposit")
	return n
}

// genTree returns the tree and whether the generator steered around F-C12-b / F-C12-c (only done
// when they are listed as known).
func genTree(t *rapid.T, rootKind fkind, maxNodes, maxDepth, idBase int, noCSOOG bool) (*node, bool) {
	g := &gen{t: t, maxNodes: maxNodes, maxDepth: maxDepth, noCSOOG: noCSOOG, auth: true}
	root := g.node(rootKind, 1, false)
	root.gasMode = gasBudget
	if root.value == 2000 {
		root.value = 2
	}
	root.number(idBase)
	addReentries(t, root, 25)
	knownC := stats.IsKnown("F-C12-c")
	root.walk(func(n *node) {
		if n.deposit < n.span {
			n.deposit = n.span
		}
		underStatic := false
		for x := n; x != nil; x = x.parent {
			if x.kind == kStatic {
				underStatic = true
			}
		}
		for i := range n.steps {
			s := &n.steps[i]
			if s.k != sAuthCall {
				continue
			}
			s.key = n.id*8 + i
			if _, ok := staticCtxOK(n); !ok { // the signature binds the invoking contract's address
				*s = step{k: sTstore, slot: 0, val: 1}
			} else if underStatic && knownC {
				*s = step{k: sTstore, slot: 0, val: 1}
				stats.Exclude("F-C12-c")
			}
		}
	})
	return root, g.steered
}

// addReentries turns some leaves into a second (third, ...) execution of an EARLIER leaf: a call-family
// leaf calls the same contract address again (any call kind, own value and gas), a CREATE/CREATE2 leaf
// repeats the same init code and salt. Leaves that self-destruct are preferred as targets.
func addReentries(t *rapid.T, root *node, pct int) {
	var callLeaves, createLeaves []*node
	root.walk(func(n *node) {
		if n.parent == nil || len(n.steps) != 0 && len(n.children()) != 0 {
			return
		}
		if len(n.children()) != 0 || n.pre > 0 {
			return
		}
		pool := &callLeaves
		if n.kind.creates() {
			pool = &createLeaves
		}
		if len(*pool) > 0 && rapid.IntRange(0, 99).Draw(t, "reenter") < pct {
			var pref []*node
			for _, x := range *pool {
				if x.out == oSelfdestruct {
					pref = append(pref, x)
				}
			}
			cand := *pool
			if len(pref) > 0 && rapid.Bool().Draw(t, "preferSelfdestructed") {
				cand = pref
			}
			tgt := cand[rapid.IntRange(0, len(cand)-1).Draw(t, "reenterTarget")]
			n.alias = tgt
			n.steps = nil
			n.out = tgt.out
			if n.kind.creates() {
				n.kind = tgt.kind
			}
			return
		}
		*pool = append(*pool, n)
	})
}

// genReentryTree is the focused family "second occurrence on the same account": a leaf contract T
// (effects, then selfdestruct/return/revert) is executed once, then again - from a frame that may
// fail afterwards, through any call kind, possibly with value - and possibly a third time.
func genReentryTree(t *rapid.T, idBase int) *node {
	effects := func(label string, max int) []step {
		var l []step
		for i, n := 0, rapid.IntRange(0, max).Draw(t, label); i < n; i++ {
			switch rapid.IntRange(0, 3).Draw(t, "effKind") {
			case 0:
				l = append(l, step{k: sSstore, slot: uint64(rapid.IntRange(0, 1).Draw(t, "slot")), val: uint64(rapid.IntRange(0, 9).Draw(t, "val"))})
			case 1:
				l = append(l, step{k: sTstore, slot: uint64(rapid.IntRange(0, 1).Draw(t, "slot")), val: uint64(rapid.IntRange(0, 9).Draw(t, "val"))})
			case 2:
				l = append(l, step{k: sLog, data: uint64(rapid.IntRange(1, 99).Draw(t, "data")), topics: []uint64{7}})
			default:
				l = append(l, step{k: sTransfer, to: rapid.IntRange(0, len(eoas)-1).Draw(t, "to"), amount: 1})
			}
		}
		return l
	}
	create := rapid.IntRange(0, 3).Draw(t, "createTarget") == 0
	T := &node{kind: kCall, steps: effects("tEffects", 2), benef: rapid.IntRange(0, len(eoas)-1).Draw(t, "benef")}
	if create {
		T.kind = rapid.SampledFrom([]fkind{kCreate2, kCreate2, kCreate}).Draw(t, "tKind")
	}
	T.value = uint64(rapid.IntRange(0, 2).Draw(t, "tValue"))
	T.out = outcome(rapid.SampledFrom([]int{int(oSelfdestruct), int(oSelfdestruct), int(oSelfdestruct), int(oReturn), int(oRevert), int(oInvalid)}).Draw(t, "tOut"))
	again := func(label string) *node {
		n := &node{alias: T, out: T.out, kind: T.kind, benef: T.benef}
		if !create {
			n.kind = rapid.SampledFrom([]fkind{kCall, kCall, kCall, kDelegate, kCallCode, kStatic}).Draw(t, label+"Kind")
		}
		if n.kind == kCall || n.kind == kCallCode || n.kind.creates() {
			n.value = uint64(rapid.IntRange(0, 2).Draw(t, label+"Value"))
		}
		return n
	}
	failing := []int{int(oRevert), int(oRevertData), int(oInvalid), int(oOOGMem), int(oUnderflow)}
	// the frame(s) around the second execution
	inner := &node{kind: rapid.SampledFrom([]fkind{kCall, kCall, kDelegate, kCallCode, kStatic, kCreate}).Draw(t, "qKind"), out: oReturn}
	inner.steps = append(effects("qPre", 1), step{k: sChild, child: again("second")})
	inner.steps = append(inner.steps, effects("qPost", 1)...)
	if rapid.IntRange(0, 9).Draw(t, "qFails") < 6 {
		inner.out = outcome(rapid.SampledFrom(failing).Draw(t, "qOut"))
	}
	q := inner
	if rapid.IntRange(0, 2).Draw(t, "qNest") == 0 {
		q = &node{kind: rapid.SampledFrom([]fkind{kCall, kDelegate, kCreate2}).Draw(t, "q2Kind"), out: oReturn, steps: []step{{k: sChild, child: inner}}}
		if rapid.Bool().Draw(t, "q2Fails") {
			q.out = outcome(rapid.SampledFrom(failing).Draw(t, "q2Out"))
		}
	}
	root := &node{kind: kCall, out: oReturn}
	root.steps = append(effects("rPre", 1), step{k: sChild, child: T})
	root.steps = append(root.steps, effects("rMid", 1)...)
	if rapid.IntRange(0, 4).Draw(t, "direct") == 0 {
		root.steps = append(root.steps, step{k: sChild, child: again("secondDirect")})
	} else {
		root.steps = append(root.steps, step{k: sChild, child: q})
	}
	if rapid.IntRange(0, 2).Draw(t, "third") == 0 {
		root.steps = append(root.steps, step{k: sChild, child: again("third")})
	}
	root.steps = append(root.steps, effects("rPost", 1)...)
	if rapid.IntRange(0, 9).Draw(t, "rootFails") == 0 {
		root.out = oRevert
	}
	root.number(idBase)
	root.walk(func(n *node) {
		n.deposit = n.span
		n.keep = 700_000
	})
	return root
}

// genStaticTree is the focused part of the domain: root -> STATICCALL -> 0-2 nested frames -> a leaf
// whose program contains exactly one state-modifying operation, everything declared to return.
func genStaticTree(t *rapid.T, idBase int) *node {
	leaf := &node{out: oReturn}
	w := rapid.IntRange(0, 12).Draw(t, "staticWrite")
	switch {
	case w == 0:
		leaf.steps = []step{{k: sSstore, slot: 1, val: 7}}
	case w == 1:
		leaf.steps = []step{{k: sTstore, slot: 1, val: 7}}
	case w <= 6:
		s := step{k: sLog, data: 77}
		for j := 0; j < w-2; j++ {
			s.topics = append(s.topics, uint64(j+1))
		}
		leaf.steps = []step{s}
	case w == 7:
		leaf.steps = []step{{k: sTransfer, to: 1, amount: 1}}
	case w == 8:
		leaf.steps = []step{{k: sAuthCall, to: 1, amount: uint64(rapid.IntRange(0, 2).Draw(t, "amount"))}}
	case w == 9:
		leaf.steps = []step{{k: sChild, child: &node{kind: kCreate, out: oReturn}}}
	case w == 10:
		leaf.steps = []step{{k: sChild, child: &node{kind: kCreate2, out: oReturn}}}
	case w == 11:
		leaf.steps = []step{{k: sChild, child: &node{kind: kCall, value: 1, out: oReturn}}}
	default:
		leaf.out = oSelfdestruct
	}
	if rapid.IntRange(0, 3).Draw(t, "readBefore") == 0 { // something harmless before the write
		leaf.steps = append([]step{{k: sChild, child: &node{kind: kStatic, out: oReturn}}}, leaf.steps...)
	}
	cur := leaf
	for i, n := 0, rapid.IntRange(0, 2).Draw(t, "nest"); i < n; i++ {
		cur.kind = rapid.SampledFrom([]fkind{kCall, kDelegate, kCallCode, kStatic}).Draw(t, "nestKind")
		if cur.kind == kCallCode {
			cur.value = uint64(rapid.IntRange(0, 1).Draw(t, "ccValue"))
		}
		cur = &node{out: oReturn, steps: []step{{k: sChild, child: cur}}}
	}
	cur.kind = kStatic
	root := &node{kind: kCall, out: oReturn, steps: []step{{k: sSstore, slot: 0, val: 3}, {k: sChild, child: cur}, {k: sTstore, slot: 0, val: 4}}}
	root.number(idBase)
	root.walk(func(n *node) {
		n.deposit = n.span
		n.keep = 700_000
		for i := range n.steps {
			if n.steps[i].k == sAuthCall {
				n.steps[i].key = n.id*8 + i
				if stats.IsKnown("F-C12-c") {
					n.steps[i] = step{k: sTstore, slot: 0, val: 1}
					stats.Exclude("F-C12-c")
				}
			}
		}
	})
	return root
}

// ---------- frame-tree case ----------

type treeCase struct {
	tree      *node
	cold      bool
	initStore map[int]map[uint64]uint64
	gas       uint64
}

type runOut struct {
	e         *env
	tx        *txResult
	root      common.Hash
	existPre  map[common.Address]bool
	existPost map[common.Address]bool
}

// runVariant builds a fresh state (always with the ORIGINAL tree's accounts, funding and storage),
// overrides the code with the variant's, executes it and checks it against the reference fold.
func runVariant(tc *treeCase, variant *node, rebudget bool, label string) (*runOut, []string) {
	e := newEnv()
	e.install(tc.tree, true, tc.initStore)
	if rebudget {
		budget(variant, predFailOf(variant, e.m, variant.kind.creates()))
	}
	c := e.install(variant, false, nil)
	if tc.cold {
		if err := e.goCold(); err != nil {
			return nil, []string{label + ": reopen: " + err.Error()}
		}
	}
	tx, err := e.exec(variant, c, tc.gas, nil)
	if err != nil {
		return nil, []string{label + ": " + err.Error()}
	}
	var d []string
	if tx.badByte != "" {
		d = append(d, tx.badByte)
	}
	d = append(d, tx.rp.viol...)
	d = append(d, e.compareState()...)
	d = append(d, e.compareLogs(tx)...)
	out := &runOut{e: e, tx: tx, existPre: map[common.Address]bool{}, existPost: map[common.Address]bool{}}
	for _, x := range e.universe() {
		out.existPre[x] = e.st.Exist(x)
	}
	// the variants run different programs: neutralise the installed code before taking the root, so that
	// the root reflects balances, nonces, storage, deployed code and the set of accounts only
	for _, a := range sortedAddrs(keysOf(e.codes)) {
		e.st.SetCode(a, []byte{opSTOP})
	}
	out.root = e.st.IntermediateRoot(true)
	created := e.createdSet()
	for _, x := range e.universe() {
		out.existPost[x] = e.st.Exist(x)
		// after finalisation: a contract is gone iff it self-destructed in a frame whose effects count
		a, ok := e.m.a[x]
		sui := ok && a.suicided
		_, hasCode := e.codes[x]
		switch {
		case hasCode:
			if out.existPost[x] == sui {
				d = append(d, fmt.Sprintf("after finalisation contract %s exists=%v, reference: self-destructed=%v", x.GetHexString(), out.existPost[x], sui))
			}
		case created[x]:
			if want := ok && a.nonce > 0 && !sui; out.existPost[x] != want {
				d = append(d, fmt.Sprintf("after finalisation created contract %s exists=%v, expected %v", x.GetHexString(), out.existPost[x], want))
			}
		}
	}
	for i := range d {
		d[i] = label + ": " + d[i]
	}
	return out, d
}

func stubOf(c *node, parent *node) *node {
	return &node{id: c.id, span: c.span, kind: c.kind, value: c.value, out: oRevert, deposit: c.span, parent: parent, gasArg: 200_000, keep: c.keep}
}

// prune removes every frame the EVM reported failed (a failed CREATE that got as far as bumping the
// creator's nonce is replaced by a CREATE whose init code is a single INVALID).
func prune(orig *node, rp *replayer) *node {
	t := orig.clone(nil)
	if !rp.used[t.id] {
		return stubOf(t, nil)
	}
	var rec func(n *node)
	rec = func(n *node) {
		if n.gasMode == gasTight {
			n.gasMode = gasBudget
			n.gasArg = n.need + n.need/4
		}
		var out []step
		for _, s := range n.steps {
			if s.k != sChild {
				out = append(out, s)
				continue
			}
			c := s.child
			if rp.used[c.id] {
				rec(c)
				out = append(out, s)
			} else if _, bumped := rp.created[c.id]; bumped && c.kind.creates() {
				s.child = stubOf(c, n)
				out = append(out, s)
			}
		}
		n.steps = out
	}
	rec(t)
	return t
}

// truncate cuts the program of every ancestor of frame fid right after the step that leads to it
// and lets the ancestors return normally, so that the state right after fid returned is what the
// run ends with. Without keep the frame itself is left out (a failing CREATE is replaced by a stub
// that keeps the creator's nonce bump): the state at its entry.
func truncate(orig *node, fid int, keep bool) *node {
	t := orig.clone(nil)
	f := t.find(fid)
	child := f
	for a := f.parent; a != nil; child, a = a, a.parent {
		for i, s := range a.steps {
			if s.k == sChild && s.child == child {
				a.steps = a.steps[:i+1]
				break
			}
		}
		a.out = oReturn
	}
	if !keep {
		p := f.parent
		last := len(p.steps) - 1
		if f.kind.creates() {
			p.steps[last].child = stubOf(f, p)
		} else {
			p.steps = p.steps[:last]
		}
	}
	return t
}

// sameState compares two runs of related programs: fixed addresses one to one, created contracts
// by the frame that created them.
func sameState(a, b *runOut, label string, skip map[int]bool) (d []string, rootsComparable bool) {
	type pair struct{ x, y common.Address }
	var pairs []pair
	for _, x := range sortedAddrs(a.e.fixed) {
		pairs = append(pairs, pair{x, x})
	}
	ca, cb := a.tx.rp.created, b.tx.rp.created
	var ids []int
	for id := range ca {
		ids = append(ids, id)
	}
	sort.Ints(ids)
	rootsComparable = true
	for _, id := range ids {
		if skip[id] {
			continue
		}
		y, ok := cb[id]
		if !ok || !a.tx.rp.used[id] || !b.tx.rp.used[id] {
			continue // targets of failed creations are covered by the reference fold (a collision target belongs to another frame)
		}
		pairs = append(pairs, pair{ca[id], y})
		if ca[id] != y && (a.existPost[ca[id]] || b.existPost[y]) {
			rootsComparable = false // a live contract sits at different CREATE2 addresses: roots differ legitimately
		}
	}
	sa, sb := a.e.st, b.e.st
	for _, p := range pairs {
		name := p.x.GetHexString()
		if sa.GetBalance(p.x).Cmp(sb.GetBalance(p.y)) != 0 {
			d = append(d, fmt.Sprintf("balance of %s: %s vs %s", name, sa.GetBalance(p.x), sb.GetBalance(p.y)))
		}
		if sa.GetNonce(p.x) != sb.GetNonce(p.y) {
			d = append(d, fmt.Sprintf("nonce of %s: %d vs %d", name, sa.GetNonce(p.x), sb.GetNonce(p.y)))
		}
		if a.existPre[p.x] != b.existPre[p.y] || a.existPost[p.x] != b.existPost[p.y] {
			d = append(d, fmt.Sprintf("existence of %s (before/after finalisation): %v/%v vs %v/%v", name, a.existPre[p.x], a.existPost[p.x], b.existPre[p.y], b.existPost[p.y]))
		}
		for s := uint64(0); s < nSlots; s++ {
			if sa.GetState(p.x, hashOfU(s)) != sb.GetState(p.y, hashOfU(s)) {
				d = append(d, fmt.Sprintf("storage %s[%d]: %s vs %s", name, s, sa.GetState(p.x, hashOfU(s)).Hex(), sb.GetState(p.y, hashOfU(s)).Hex()))
			}
			if sa.GetTransientState(p.x, hashOfU(s)) != sb.GetTransientState(p.y, hashOfU(s)) {
				d = append(d, fmt.Sprintf("transient %s[%d]: %s vs %s", name, s, sa.GetTransientState(p.x, hashOfU(s)).Hex(), sb.GetTransientState(p.y, hashOfU(s)).Hex()))
			}
		}
	}
	la, lb := sa.GetLogs(a.tx.hash), sb.GetLogs(b.tx.hash)
	if len(la) != len(lb) {
		d = append(d, fmt.Sprintf("%d logs vs %d logs", len(la), len(lb)))
	}
	if rootsComparable && a.root != b.root {
		d = append(d, fmt.Sprintf("state root %s vs %s", a.root.Hex(), b.root.Hex()))
	}
	for i := range d {
		d[i] = label + ": " + d[i]
	}
	return d, rootsComparable
}

func shapeKey(n *node, used map[int]bool) string {
	var sb strings.Builder
	var rec func(n *node)
	rec = func(n *node) {
		st := "?"
		if ok, reached := used[n.id]; reached {
			st = "0"
			if ok {
				st = "1"
			}
		}
		fmt.Fprintf(&sb, "%d/%d/%s(", n.kind, n.out, st)
		if n.alias != nil {
			fmt.Fprintf(&sb, "again%d", n.alias.id-tree0(n).id)
		}
		for _, s := range n.steps {
			if s.k == sChild {
				rec(s.child)
			} else {
				fmt.Fprintf(&sb, "%d", s.k)
			}
		}
		sb.WriteString(")")
	}
	rec(n)
	return sb.String()
}

func hasWork(n *node) bool { return len(n.prog().steps) > 0 || n.value > 0 || n.prog().out == oSelfdestruct }

func hasWrite(n *node) bool {
	w := n.prog().out == oSelfdestruct
	for _, s := range n.prog().steps {
		if s.k != sChild || s.child.kind.creates() || s.child.value > 0 || hasWrite(s.child) {
			w = true
		}
	}
	return w
}

// classify records what the case exercised and returns the non-trivial key ("" if trivial).
func classify(tree *node, rp, pred *replayer, prefix string) string {
	nontrivial := false
	depth := map[int]int{}
	maxd := 0
	tree.walk(func(n *node) {
		d := 1
		if n.parent != nil {
			d = depth[n.parent.id] + 1
		}
		depth[n.id] = d
		if d > maxd {
			maxd = d
		}
		if n.alias != nil {
			if p1, r1 := pred.used[n.alias.id]; r1 {
				if p2, r2 := pred.used[n.id]; r2 {
					inFailing := false
					for q := n.parent; q != nil; q = q.parent {
						if ok, reached := pred.used[q.id]; reached && !ok {
							inFailing = true
						}
					}
					stats.Class(fmt.Sprintf("%sreentry:%s first_ok=%v again_via_%s ok=%v in_failing_ancestor=%v", prefix, outName[n.alias.out], p1, kindName[n.kind], p2, inFailing))
					if n.alias.out == oSelfdestruct && p1 && p2 && inFailing {
						stats.Class(prefix + "reentry:SELFDESTRUCT_again_inside_frame_that_is_reverted")
					}
					if n.alias.out == oSelfdestruct && p1 && n.value > 0 && n.kind == kCall {
						stats.Class(prefix + "reentry:value_sent_to_selfdestructed_contract")
					}
				}
			}
		}
		if okp, reached := rp.used[n.id]; reached && n.pre > 0 {
			name := "precompile_value_call"
			if !(n.kind == kCall && n.value > 0) {
				name = "precompile_call(no value or " + kindName[n.kind] + ")"
			}
			switch {
			case okp:
				name += "_succeeded"
			case rp.why[n.id] == "insufficient balance":
				name += "_not_started(insufficient balance)"
			case n.preInput >= 2 && n.gasArg >= 600_000:
				name += "_failed_bad_input"
			case n.preInput <= 1:
				name += "_failed_oog"
			default:
				name += "_failed_oog_or_bad_input"
			}
			stats.Class(prefix + name)
			if !okp && n.kind == kCall && n.value > 0 {
				parentFails := false
				for q := n.parent; q != nil; q = q.parent {
					if o, r := pred.used[q.id]; r && !o {
						parentFails = true
					}
				}
				if parentFails {
					stats.Class(prefix + "precompile_value_call_failed_inside_frame_that_reverts_later")
				} else {
					stats.Class(prefix + "precompile_value_call_failed_inside_successful_frames")
				}
			}
			stats.Class(fmt.Sprintf("%sprecompile_target:%d", prefix, n.pre))
		}
		ok, reached := rp.used[n.id]
		if !reached && n.pre > 0 && n.kind == kCall && n.value > 0 {
			if p, r := pred.used[n.id]; r && !p { // sits below a frame that failed: visible to the cut-before/cut-after comparison only
				stats.Class(prefix + "precompile_value_call_failing_below_a_frame_that_reverts(predicted)")
			}
		}
		if !reached {
			stats.Class(prefix + "frame:unreached")
			return
		}
		if underStatic(n) {
			stats.Class(prefix + "static_frame_first_write:" + firstWrite(n))
		}
		stats.Class(prefix + "kind:" + kindName[n.kind])
		if ok {
			stats.Class(prefix + "ok:" + outName[n.out])
			if n.kind == kStatic || rp.static[n.id] {
				if hasWrite(n) {
					nontrivial = true
				}
			}
			return
		}
		why := rp.why[n.id]
		if why == "" {
			why = pred.why[n.id]
		}
		for _, s := range n.prog().steps {
			if s.k != sChild {
				stats.Class(prefix + "effect_in_failed_frame:" + []string{"SSTORE", "TSTORE", "LOG", "TRANSFER", "", "AUTHCALL"}[s.k])
			} else {
				stats.Class(prefix + "effect_in_failed_frame:child_" + kindName[s.child.kind])
			}
		}
		switch {
		case why == "insufficient balance" || why == "address collision":
			stats.Class(prefix + "fail:" + strings.ReplaceAll(why, " ", "_"))
		case strings.Contains(why, "static"):
			stats.Class(prefix + "fail:write_in_static/" + kindName[n.kind])
		case n.out.fails():
			stats.Class(prefix + "fail:" + outName[n.out] + "/" + kindName[n.kind])
		default:
			stats.Class(prefix + "fail:gas_or_nested")
		}
		if hasWork(n) {
			nontrivial = true
			stats.Class(prefix + "failing_frame_with_effects")
		}
		if n.parent != nil && rp.static[n.parent.id] && hasWrite(n) {
			nontrivial = true
		}
	})
	stats.Class(fmt.Sprintf("%sdepth:%d", prefix, maxd))
	if !nontrivial {
		return ""
	}
	return prefix + shapeKey(tree, rp.used)
}

func failf(t *rapid.T, tc *treeCase, d []string) {
	if len(d) > 12 {
		d = append(d[:12], fmt.Sprintf("... %d more", len(d)-12))
	}
	t.Fatalf("C12 violated\n  tree: %s\n  cold=%v gas=%d\n  %s", tc.tree, tc.cold, tc.gas, strings.Join(d, "\n  "))
}

func skipIfExec(t *testing.T) {
	if *execMode {
		t.Skip("block-executor process")
	}
}

func TestFrameTrees(t *testing.T) {
	skipIfExec(t)
	known := stats.IsKnown("F-C12-b")
	stats.Check(t, 1500, 15000, func(t *rapid.T) {
		rootKind := kCall
		if rapid.IntRange(0, 4).Draw(t, "rootCreate") == 0 {
			rootKind = kCreate
		}
		var tree *node
		if fam := rapid.IntRange(0, 9).Draw(t, "family"); fam <= 1 {
			rootKind = kCall
			tree = genStaticTree(t, 0)
			stats.Class("generator:static_focus")
		} else if fam <= 3 {
			rootKind = kCall
			tree = genReentryTree(t, 0)
			stats.Class("generator:reentry_focus")
		} else {
			var steered bool
			tree, steered = genTree(t, rootKind, 14, 4, 0, known)
			if steered {
				stats.Exclude("F-C12-b")
			}
			stats.Class("generator:general")
		}
		tc := &treeCase{tree: tree, cold: rapid.Bool().Draw(t, "cold"), initStore: map[int]map[uint64]uint64{}}
		tree.walk(func(n *node) {
			if !n.kind.creates() && rapid.IntRange(0, 2).Draw(t, "initStore") == 0 {
				tc.initStore[n.id] = map[uint64]uint64{uint64(rapid.IntRange(0, nSlots-1).Draw(t, "islot")): uint64(rapid.IntRange(1, 9).Draw(t, "ival"))}
			}
		})
		// gas: budget from the predicted outcome pattern
		{
			e := newEnv()
			e.install(tree, true, tc.initStore) // funds the reference state used by the prediction
			need := budgetTamed(tree, predFailOf(tree, e.m, rootKind.creates()))
			tc.gas = satAdd(need, need/4)
			if rapid.IntRange(0, 9).Draw(t, "rootTight") == 0 {
				tc.gas = tc.gas / 100 * uint64(rapid.SampledFrom([]int{10, 40, 70, 90}).Draw(t, "rootPct"))
				stats.Class("root_gas:tight")
			} else if tc.gas <= 900_000_000 {
				stats.Class("root_gas:within_900M_tx_cap")
			} else {
				stats.Class("root_gas:above_tx_cap")
			}
		}
		full, d := runVariant(tc, tree.clone(nil), false, "full run")
		if len(d) > 0 {
			failf(t, tc, d)
		}
		rp := full.tx.rp
		// prediction vs report (information only)
		{
			e := newEnv()
			e.install(tree, true, tc.initStore)
			pf := predFailOf(tree, e.m, rootKind.creates())
			div := false
			tree.walk(func(n *node) {
				if ok, reached := rp.used[n.id]; reached && ok == pf(n) {
					div = true
				}
			})
			if div {
				stats.Class("statuses:differ_from_declared(gas)")
			} else {
				stats.Class("statuses:as_declared")
			}
		}
		// B. pruning
		pr, d := runVariant(tc, prune(tree, rp), false, "pruned run")
		if len(d) > 0 {
			failf(t, tc, d)
		}
		same := true
		pr.tx.tree.walk(func(n *node) {
			if got, reached := pr.tx.rp.used[n.id]; !reached || got != rp.used[n.id] {
				same = false
			}
		})
		if !same {
			stats.Class("prune:statuses_changed(skipped)")
		} else {
			d, cmp := sameState(full, pr, "full run vs run without the failed frames", nil)
			if len(d) > 0 {
				failf(t, tc, d)
			}
			if cmp {
				stats.Class("prune:roots_compared")
			} else {
				stats.Class("prune:accessors_only(create2_address_moved)")
			}
		}
		// C. per failing frame: state at entry == state after return
		var cands []int
		tree.walk(func(n *node) {
			if n.parent == nil {
				return
			}
			if ok, reached := rp.used[n.id]; (reached && !ok) || n.out.fails() || rp.static[n.parent.id] {
				cands = append(cands, n.id)
			}
		})
		if len(cands) > 0 {
			var chosen []int
			if stats.Thorough() {
				chosen = cands
			} else {
				chosen = []int{cands[rapid.IntRange(0, len(cands)-1).Draw(t, "probeFrame")]}
			}
			for _, fid := range chosen {
				after, d := runVariant(tc, truncate(tree, fid, true), false, fmt.Sprintf("run cut after frame #%d", fid))
				if len(d) > 0 {
					failf(t, tc, d)
				}
				if ok, reached := after.tx.rp.used[fid]; !reached || ok {
					stats.Class("probe:frame_not_failing(skipped)")
					continue
				}
				before, d := runVariant(tc, truncate(tree, fid, false), false, fmt.Sprintf("run cut before frame #%d", fid))
				if len(d) > 0 {
					failf(t, tc, d)
				}
				pathOK := true
				for a := tree.find(fid).parent; a != nil; a = a.parent {
					if !after.tx.rp.used[a.id] || !before.tx.rp.used[a.id] {
						pathOK = false
					}
				}
				if !pathOK {
					stats.Class("probe:ancestor_failed(skipped)")
					continue
				}
				d, cmp := sameState(before, after, fmt.Sprintf("state at entry of failing frame #%d vs state after it returned", fid), map[int]bool{fid: true})
				if len(d) > 0 {
					failf(t, tc, d)
				}
				if cmp {
					stats.Class("probe:entry_vs_return(with_roots)")
				} else {
					stats.Class("probe:entry_vs_return(accessors)")
				}
			}
		}
		if tc.cold {
			stats.Class("state:cold_reopened")
		} else {
			stats.Class("state:fresh_objects")
		}
		stats.Class("root:" + kindName[rootKind])
		predE := newEnv()
		predE.install(tree, true, tc.initStore)
		pred := newReplayer(predE.m, nil, map[int][]byte{})
		if rootKind == kCall {
			predE.m.acct(evmh.Origin).nonce++
		}
		pred.child(tree, evmh.Origin, false)
		key := classify(tree, rp, pred, "")
		stats.Case(key)
		stats.Sample(map[string]interface{}{"tree": tree.String(), "root_ok": full.tx.rootOK, "gas": tc.gas})
	})
}

var _ = os.Getenv

func firstWrite(n *node) string {
	n = n.prog()
	for _, s := range n.steps {
		switch s.k {
		case sSstore:
			return "SSTORE"
		case sTstore:
			return "TSTORE"
		case sLog:
			return fmt.Sprintf("LOG%d", len(s.topics))
		case sTransfer:
			return "CALL_with_value"
		case sAuthCall:
			return "AUTHCALL"
		case sChild:
			if s.child.kind.creates() {
				return kindName[s.child.kind]
			}
			if s.child.kind == kCall && s.child.value > 0 {
				return "CALL_with_value"
			}
		}
	}
	if n.out == oSelfdestruct {
		return "SELFDESTRUCT"
	}
	return "none"
}

func underStatic(n *node) bool {
	for x := n; x != nil; x = x.parent {
		if x.kind == kStatic {
			return true
		}
	}
	return false
}

func tree0(n *node) *node {
	for n.parent != nil {
		n = n.parent
	}
	return n
}
