package c12

// Reference semantics for frame trees: the expected state is folded from the tree. A frame's
// effects count iff every frame on the path succeeded and no ancestor is static.

import (
	"fmt"
	"math/big"
	"sort"

	"com.tuntun.rangers/node/src/common"

	"verifharness/internal/ref"
)

type macct struct {
	nonce    uint64
	bal      *big.Int
	st       map[uint64]uint64
	suicided bool
	created  bool  // created by a CREATE/CREATE2 frame that succeeded
	object   bool  // an (empty) account object exists before finalisation: target of a counted CALL to a precompile
	codeNode *node // deployed code is the report of this node
}

type mlog struct {
	addr   common.Address
	topics []uint64
	data   uint64
}

type mstate struct {
	a    map[common.Address]*macct
	tr   map[common.Address]map[uint64]uint64
	logs []mlog
}

func newMState() *mstate {
	return &mstate{a: map[common.Address]*macct{}, tr: map[common.Address]map[uint64]uint64{}}
}

func (m *mstate) acct(x common.Address) *macct {
	if a, ok := m.a[x]; ok {
		return a
	}
	a := &macct{bal: new(big.Int), st: map[uint64]uint64{}}
	m.a[x] = a
	return a
}

func (m *mstate) clone() *mstate {
	c := newMState()
	for k, v := range m.a {
		n := *v
		n.bal = new(big.Int).Set(v.bal)
		n.st = make(map[uint64]uint64, len(v.st))
		for s, x := range v.st {
			n.st[s] = x
		}
		c.a[k] = &n
	}
	for k, v := range m.tr {
		n := make(map[uint64]uint64, len(v))
		for s, x := range v {
			n[s] = x
		}
		c.tr[k] = n
	}
	c.logs = append([]mlog(nil), m.logs...)
	return c
}

func (m *mstate) transientEmpty() bool {
	for _, v := range m.tr {
		for _, x := range v {
			if x != 0 {
				return false
			}
		}
	}
	return true
}

func (m *mstate) move(from, to common.Address, amt uint64) {
	if amt == 0 {
		return
	}
	v := new(big.Int).SetUint64(amt)
	m.acct(from).bal.Sub(m.acct(from).bal, v)
	m.acct(to).bal.Add(m.acct(to).bal, v)
}

func (m *mstate) canPay(x common.Address, amt uint64) bool {
	return m.acct(x).bal.Cmp(new(big.Int).SetUint64(amt)) >= 0
}

// ---- address derivation (Yellow Paper / EIP-1014), independent of the node's crypto package ----

func createAddress(creator common.Address, nonce uint64) common.Address {
	h := ref.Keccak256(ref.RLPEncode(ref.L(ref.B(creator[:]), ref.U(nonce))))
	var a common.Address
	copy(a[:], h[12:])
	return a
}

func create2Address(creator common.Address, salt uint64, initcode []byte) common.Address {
	ih := ref.Keccak256(initcode)
	buf := []byte{0xff}
	buf = append(buf, creator[:]...)
	buf = append(buf, wordOf(salt)...)
	buf = append(buf, ih[:]...)
	h := ref.Keccak256(buf)
	var a common.Address
	copy(a[:], h[12:])
	return a
}

// ---- replay ----

type replayer struct {
	m        *mstate
	obs      map[int]byte // statuses reported by the EVM (nil: predict from the declared outcomes)
	initcode map[int][]byte
	used     map[int]bool           // status used for every reached node
	ctx      map[int]common.Address // storage context of every executed node
	created  map[int]common.Address // address derived for every reached create child that got past the balance check
	why      map[int]string         // reason a reached node must fail (model's view)
	viol     []string
	static   map[int]bool // executed under a static ancestor (or static itself)
	touched  map[common.Address]bool
	authorities map[common.Address]bool
	origin   common.Address
}

func newReplayer(m *mstate, obs map[int]byte, initcode map[int][]byte) *replayer {
	return &replayer{m: m, obs: obs, initcode: initcode, used: map[int]bool{}, ctx: map[int]common.Address{},
		created: map[int]common.Address{}, why: map[int]string{}, static: map[int]bool{}, touched: map[common.Address]bool{},
		authorities: map[common.Address]bool{}, origin: originAddr()}
}

// body applies the frame's program; false = the frame must fail (reason in r.why[n.id]).
// key is the id under which this execution is recorded (differs from n.id when a later frame runs
// the program of an earlier leaf again).
func (r *replayer) body(n *node, key int, self common.Address, static bool) bool {
	r.ctx[key] = self
	r.static[key] = static
	r.touched[self] = true
	fail := func(s string) bool { r.why[key] = s; return false }
	for _, s := range n.steps {
		switch s.k {
		case sSstore:
			if static {
				return fail("SSTORE in static context")
			}
			r.m.acct(self).st[s.slot] = s.val
		case sTstore:
			if static {
				return fail("TSTORE in static context")
			}
			if r.m.tr[self] == nil {
				r.m.tr[self] = map[uint64]uint64{}
			}
			r.m.tr[self][s.slot] = s.val
		case sLog:
			if static {
				return fail("LOG in static context")
			}
			r.m.logs = append(r.m.logs, mlog{self, s.topics, s.data})
		case sTransfer:
			if static {
				return fail("value CALL in static context")
			}
			if r.m.canPay(self, s.amount) {
				r.m.move(self, eoas[s.to], s.amount)
			}
		case sAuthCall:
			// In a static context the property demands that nothing changes (whatever the opcode reports).
			// AUTH accepts the signature only in the contract it was made for, AUTHCALL only with the
			// authority's current nonce (the program always passes 0).
			r.authorities[authorityOf(s.key)] = true
			if signCtx, ok := staticCtxOK(n); !static && ok && signCtx == self && r.m.acct(authorityOf(s.key)).nonce == 0 {
				r.m.acct(authorityOf(s.key)).nonce++
				r.m.move(r.origin, eoas[s.to], s.amount)
			}
		case sChild:
			if why := r.child(s.child, self, static); why != "" {
				return fail(why)
			}
		}
	}
	switch n.out {
	case oReturn, oStop:
		return true
	case oSelfdestruct:
		if static {
			return fail("SELFDESTRUCT in static context")
		}
		a := r.m.acct(self)
		r.m.acct(eoas[n.benef]).bal.Add(r.m.acct(eoas[n.benef]).bal, a.bal)
		a.bal = new(big.Int)
		a.suicided = true
		return true
	}
	return fail("declared outcome " + outName[n.out])
}

// child runs one child step. A non-empty result means the PARENT frame must fail.
func (r *replayer) child(c *node, self common.Address, static bool) string {
	if static {
		if c.kind == kCall && c.value > 0 {
			return "value CALL in static context"
		}
		if c.kind.creates() {
			return "CREATE in static context"
		}
	}
	st, known := r.obs[c.id]
	noExec := ""
	var addr common.Address
	prog := c.prog()
	switch c.kind {
	case kCall, kCallCode:
		if !r.m.canPay(self, c.value) {
			noExec = "insufficient balance"
		}
	case kCreate, kCreate2:
		if !r.m.canPay(self, c.value) {
			noExec = "insufficient balance"
			break
		}
		a := r.m.acct(self)
		if c.kind == kCreate {
			addr = createAddress(self, a.nonce)
		} else {
			addr = create2Address(self, uint64(prog.id), r.initcode[prog.id])
		}
		a.nonce++
		r.created[c.id] = addr
		if t, ok := r.m.a[addr]; ok && (t.nonce != 0 || t.codeNode != nil) {
			noExec = "address collision"
		}
	}
	if noExec != "" {
		r.used[c.id] = false
		r.why[c.id] = noExec
		if known && st == 1 {
			r.viol = append(r.viol, fmt.Sprintf("frame #%d reported success but cannot start: %s", c.id, noExec))
		}
		return ""
	}
	if known && st != 1 { // reported failure: by the property nothing of it may remain
		r.used[c.id] = false
		return ""
	}
	if c.pre > 0 { // precompiled contract: no program; a successful CALL moves the value and leaves an account object
		why := preMustFail(c)
		ok := why == ""
		if known {
			if !ok {
				r.why[c.id] = why
				r.viol = append(r.viol, fmt.Sprintf("call #%d to precompile %d reported success but must fail: %s", c.id, c.pre, why))
			}
			ok = true
		}
		if ok && c.kind == kCall {
			r.m.move(self, precompileAddr(c.pre), c.value)
			r.m.acct(precompileAddr(c.pre)).object = true
		}
		if !ok {
			r.why[c.id] = why
		}
		r.used[c.id] = ok
		return ""
	}
	snap := r.m.clone()
	cself, cstatic := self, static
	switch c.kind {
	case kCall:
		cself = codeAddr(prog.id)
		r.m.move(self, cself, c.value)
	case kStatic:
		cself, cstatic = codeAddr(prog.id), true
	case kCreate, kCreate2:
		cself = addr
		a := r.m.acct(addr)
		a.nonce = 1
		r.m.move(self, addr, c.value)
	}
	ok := r.body(prog, c.id, cself, cstatic)
	if ok && c.kind.creates() {
		a := r.m.acct(cself)
		a.created = true
		if prog.out == oReturn {
			a.codeNode = prog
		}
	}
	if known { // st == 1
		if !ok {
			r.viol = append(r.viol, fmt.Sprintf("frame #%d (%s) reported success but must fail: %s", c.id, kindName[c.kind], r.why[c.id]))
		}
		r.used[c.id] = true
		return ""
	}
	if !ok {
		r.m = snap
	}
	r.used[c.id] = ok
	return ""
}

// visible reports whether the status byte of p travels up to ancestor anc: every frame strictly
// between them returned its report (succeeded).
func (r *replayer) visible(p, anc *node) bool {
	for q := p.parent; q != nil && q != anc; q = q.parent {
		if !r.used[q.id] {
			return false
		}
	}
	return true
}

// expectedCode is the code a successful create frame c deposits: STOP, the statuses of its
// descendants as far as they were reported upwards, zero padding.
func (r *replayer) expectedCode(c *node) []byte {
	code := make([]byte, c.deposit)
	c.walk(func(p *node) {
		if p == c {
			return
		}
		if ok, reached := r.used[p.id]; reached && ok && r.visible(p, c) {
			code[p.id-c.id] = 1
		}
	})
	return code
}

func sortedAddrs(m map[common.Address]bool) []common.Address {
	var l []common.Address
	for a := range m {
		l = append(l, a)
	}
	sort.Slice(l, func(i, j int) bool { return string(l[i][:]) < string(l[j][:]) })
	return l
}
