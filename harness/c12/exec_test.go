package c12

// Domain 2 through the node's real block executor (core.VMExecutor via the committed hook
// core.VerifExecuteBlock): contracts are deployed by contract-creation transactions in block 1,
// block 2 holds 2-5 transactions (writers that TSTORE / LOG / CREATE / SSTORE and then return or
// fail, and observers that TLOAD). Runs in its own process (flag -c12.exec), because it boots the
// node core instead of the bare EVM environment.

import (
	"bytes"
	"encoding/hex"
	"encoding/json"
	"flag"
	"fmt"
	"strings"
	"testing"
	"time"

	"com.tuntun.rangers/node/src/common"
	"com.tuntun.rangers/node/src/middleware/types"
	"pgregory.net/rapid"

	"verifharness/internal/boot"
	"verifharness/internal/stats"
	"verifharness/internal/txgen"
)

var execMode = flag.Bool("c12.exec", false, "boot the node core and run only the block-executor check")

var (
	execNode        *boot.Node
	execGenesisRoot common.Hash
	execSalt        int
)

func bootNode() error {
	boot.ConfigureForks = func() {
		c := &common.LocalChainConfig
		c.Proposal020Block, c.Proposal023Block, c.Proposal026Block = 0, 0, 1
	}
	var err error
	execNode, err = boot.Start()
	if err != nil {
		return err
	}
	execGenesisRoot = boot.Chain().TopBlock().StateTree
	return nil
}

func deployer(runtime []byte) []byte {
	a := newAsm()
	a.push(uint64(len(runtime)))
	a.pushLabel("rt")
	a.push(0)
	a.op(opCODECOPY)
	a.push(uint64(len(runtime)))
	a.push(0)
	a.op(opRETURN)
	a.mark("rt")
	a.raw(runtime)
	return a.finish()
}

func execHdr(salt string, h uint64) *types.BlockHeader {
	return &types.BlockHeader{Height: h, Castor: []byte{7, 1}, GroupId: []byte("no-such-group"), CurTime: time.Date(2024, 5, 1, 0, 0, int(h%60), 0, time.UTC),
		Hash: common.BytesToHash(common.Sha256([]byte(fmt.Sprintf("%s-%d", salt, h))))}
}

type execResultJSON struct {
	ContractAddress string `json:"contractAddress"`
	Result          string `json:"result"`
}

func TestExecBlockSequences(t *testing.T) {
	if !*execMode {
		t.Skip("runs in its own process with -c12.exec")
	}
	knownA := stats.IsKnown("F-C12-a")
	knownB := stats.IsKnown("F-C12-b")
	src := txgen.Faucets[1]
	stats.Check(t, 150, 1500, func(t *rapid.T) {
		execSalt++
		salt := fmt.Sprintf("c12-%d", execSalt)
		// ---- writers: single-frame programs (+ CREATE children, whose init code travels inside)
		nW := rapid.IntRange(1, 3).Draw(t, "nWriters")
		var writers []*node
		var deploy []*types.Transaction
		nonce := uint64(0)
		for k := 0; k < nW; k++ {
			w := &node{kind: kCall}
			for i, n := 0, rapid.IntRange(1, 5).Draw(t, "nsteps"); i < n; i++ {
				switch rapid.IntRange(0, 4).Draw(t, "step") {
				case 0:
					w.steps = append(w.steps, step{k: sSstore, slot: uint64(rapid.IntRange(0, 3).Draw(t, "slot")), val: uint64(rapid.IntRange(1, 9).Draw(t, "val"))})
				case 1, 2:
					w.steps = append(w.steps, step{k: sTstore, slot: uint64(rapid.IntRange(0, 3).Draw(t, "slot")), val: uint64(rapid.IntRange(1, 9).Draw(t, "val"))})
				case 3:
					s := step{k: sLog, data: uint64(rapid.IntRange(1, 1<<20).Draw(t, "data"))}
					for j, nt := 0, rapid.IntRange(0, 4).Draw(t, "nt"); j < nt; j++ {
						s.topics = append(s.topics, uint64(k*100+i*10+j))
					}
					w.steps = append(w.steps, s)
				default:
					c := &node{kind: rapid.SampledFrom([]fkind{kCreate, kCreate2}).Draw(t, "ckind"), out: oReturn}
					if rapid.IntRange(0, 3).Draw(t, "cfail") == 0 {
						c.out = oRevert
					}
					c.steps = []step{{k: sTstore, slot: 3, val: 9}, {k: sLog, data: 5, topics: []uint64{uint64(k*100 + i*10 + 9)}}}
					w.steps = append(w.steps, step{k: sChild, child: c})
				}
			}
			w.out = outcome(rapid.SampledFrom([]int{int(oReturn), int(oReturn), int(oReturn), int(oRevert), int(oInvalid)}).Draw(t, "out"))
			w.number(k * 16)
			w.walk(func(n *node) { n.deposit = n.span })
			_ = knownB
			writers = append(writers, w)
			c := newCompiler()
			rt := c.body(w)
			nonce++
			deploy = append(deploy, txgen.Contract(nil, src, "", "0x"+hex.EncodeToString(deployer(rt)), "0", "30000000", "1000000000", nonce, fmt.Sprintf("%s-d%d", salt, k)))
		}
		r1 := boot.Exec(execGenesisRoot, 0, execHdr(salt, 1), deploy, "fullverify")
		if r1.Panic != nil {
			t.Fatalf("VERIF-INCONCLUSIVE deployment block panicked: %v", r1.Panic)
		}
		addrOf := map[common.Hash]common.Address{}
		for _, r := range r1.Receipts {
			if r.Status != types.ReceiptStatusSuccessful || r.ContractAddress == (common.Address{}) {
				t.Fatalf("VERIF-INCONCLUSIVE deployment failed: %s", r.Msg)
			}
			addrOf[r.TxHash] = r.ContractAddress
		}
		var wAddr []common.Address
		for _, d := range deploy {
			wAddr = append(wAddr, addrOf[d.Hash])
		}
		root1, err := boot.Persist(r1.State)
		if err != nil {
			t.Fatalf("persist: %v", err)
		}
		// ---- block 2
		type btx struct {
			tx       *types.Transaction
			w        int
			observer bool
		}
		var txs []btx
		var list []*types.Transaction
		ntx := rapid.IntRange(2, 5).Draw(t, "ntx")
		for i := 0; i < ntx; i++ {
			w := rapid.IntRange(0, nW-1).Draw(t, "target")
			obs := i > 0 && rapid.IntRange(0, 2).Draw(t, "observer") == 0
			input := "0x"
			if obs {
				input = "0x00"
			}
			nonce++
			tx := txgen.Contract(nil, src, wAddr[w].GetHexString(), input, "0", "600000000", "1000000000", nonce, fmt.Sprintf("%s-t%d", salt, i))
			txs = append(txs, btx{tx, w, obs})
			list = append(list, tx)
		}
		r2 := boot.Exec(root1, 1, execHdr(salt, 2), list, "fullverify")
		if r2.Panic != nil {
			t.Fatalf("block executor panicked: %v", r2.Panic)
		}
		byHash := map[common.Hash]*types.Receipt{}
		for _, r := range r2.Receipts {
			byHash[r.TxHash] = r
		}
		render := func() string {
			var l []string
			for k, w := range writers {
				l = append(l, fmt.Sprintf("W%d=%s: %s", k, wAddr[k].GetHexString(), w))
			}
			for i, x := range txs {
				if x.observer {
					l = append(l, fmt.Sprintf("tx%d: observe W%d", i, x.w))
				} else {
					l = append(l, fmt.Sprintf("tx%d: call W%d", i, x.w))
				}
			}
			return strings.Join(l, "\n    ")
		}
		// executed order = nonce order of the single source = list order
		dirty := false // some earlier transaction of the block left transient values behind
		nontrivial := false
		var key []string
		for i, x := range txs {
			r := byHash[x.tx.Hash]
			if r == nil {
				t.Fatalf("VERIF-INCONCLUSIVE transaction %d was not executed\n    %s", i, render())
			}
			w := writers[x.w]
			if x.observer {
				if dirty {
					nontrivial = true
				}
				key = append(key, "obs")
				if r.Status != types.ReceiptStatusSuccessful {
					t.Fatalf("VERIF-INCONCLUSIVE observer transaction failed: %s\n    %s", r.Msg, render())
				}
				if len(r.Logs) != 0 {
					t.Fatalf("C12 violated: receipt of tx %d (observer, emits nothing) carries %d logs\n    %s", i, len(r.Logs), render())
				}
				var rj execResultJSON
				if err := json.Unmarshal([]byte(r.Msg), &rj); err != nil {
					t.Fatalf("VERIF-INCONCLUSIVE cannot parse receipt message %q", r.Msg)
				}
				out, _ := hex.DecodeString(strings.TrimPrefix(rj.Result, "0x"))
				if len(out) != 32*nSlots {
					t.Fatalf("VERIF-INCONCLUSIVE observer returned %d bytes", len(out))
				}
				if !bytes.Equal(out, make([]byte, 32*nSlots)) {
					if knownA {
						stats.Exclude("F-C12-a")
					} else {
						t.Fatalf("C12 violated (real block executor): tx %d only executes TLOAD(0..3) inside %s and read %x - transient storage written by an earlier transaction of the block\n    %s", i, wAddr[x.w].GetHexString(), out, render())
					}
				}
				continue
			}
			wantOK := w.out == oReturn
			key = append(key, fmt.Sprintf("w%d/%d", len(w.steps), w.out))
			gotOK := r.Status == types.ReceiptStatusSuccessful
			if gotOK && !wantOK {
				t.Fatalf("C12 violated (real block executor): tx %d reported successful but its program ends with %s\n    %s", i, outName[w.out], render())
			}
			if !gotOK && wantOK {
				stats.Class("exec:writer_failed_for_gas(create2 collisions)")
			}
			wantOK = gotOK // a failed transaction must leave no logs in its receipt
			// expected logs: own LOG steps + those of successful CREATE children, in program order
			var want []mlog
			var report []byte
			if wantOK {
				var rj execResultJSON
				if err := json.Unmarshal([]byte(r.Msg), &rj); err != nil {
					t.Fatalf("VERIF-INCONCLUSIVE cannot parse receipt message %q", r.Msg)
				}
				report, _ = hex.DecodeString(strings.TrimPrefix(rj.Result, "0x"))
				if len(report) != w.span-1 {
					t.Fatalf("VERIF-INCONCLUSIVE writer returned %d report bytes, want %d", len(report), w.span-1)
				}
				for _, s := range w.steps {
					switch s.k {
					case sLog:
						want = append(want, mlog{wAddr[x.w], s.topics, s.data})
					case sTstore:
						dirty = true
					case sChild:
						if report[s.child.id-w.id-1] == 1 { // the EVM reported this CREATE successful
							if s.child.out != oReturn {
								t.Fatalf("C12 violated (real block executor): CREATE frame #%d reverts but was reported successful\n    %s", s.child.id, render())
							}
							dirty = true
							for _, cs := range s.child.steps {
								if cs.k == sLog {
									want = append(want, mlog{common.Address{}, cs.topics, cs.data}) // address of the new contract not asserted
								}
							}
						}
					}
				}
			}
			if len(r.Logs) != len(want) {
				t.Fatalf("C12 violated (real block executor): receipt of tx %d carries %d logs, its own program emits %d\n    %s", i, len(r.Logs), len(want), render())
			}
			for j, g := range r.Logs {
				wl := want[j]
				bad := len(g.Topics) != len(wl.topics) || !bytes.Equal(g.Data, logData(wl.data)) || g.TxHash != x.tx.Hash
				if wl.addr != (common.Address{}) && g.Address != wl.addr {
					bad = true
				}
				for k := 0; !bad && k < len(wl.topics); k++ {
					bad = g.Topics[k] != hashOfU(wl.topics[k])
				}
				if bad {
					t.Fatalf("C12 violated (real block executor): receipt of tx %d log %d = {%s %d topics %x tx %s}, expected {%s %d topics %x}\n    %s", i, j,
						g.Address.GetHexString(), len(g.Topics), head(g.Data, 8), g.TxHash.Hex(), wl.addr.GetHexString(), len(wl.topics), head(logData(wl.data), 8), render())
				}
			}
		}
		k := ""
		if nontrivial {
			k = "exec|" + strings.Join(key, "|")
		}
		stats.Case(k, "exec:block_through_VMExecutor")
		stats.Sample(map[string]interface{}{"exec": render()})
	})
}
