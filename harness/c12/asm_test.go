package c12

// Small EVM assembler + frame-tree compiler used by the C12 checks.

import (
	"encoding/binary"
	"fmt"
	"strings"

	"com.tuntun.rangers/node/src/common"
)

const (
	opSTOP         = 0x00
	opADD          = 0x01
	opSUB          = 0x03
	opDIV          = 0x04
	opGT           = 0x11
	opISZERO       = 0x15
	opCALLDATASIZE = 0x36
	opCODECOPY     = 0x39
	opEXTCODECOPY  = 0x3c
	opPOP          = 0x50
	opMLOAD        = 0x51
	opMSTORE       = 0x52
	opMSTORE8      = 0x53
	opSSTORE       = 0x55
	opJUMP         = 0x56
	opJUMPI        = 0x57
	opGAS          = 0x5a
	opJUMPDEST     = 0x5b
	opTLOAD        = 0x5c
	opTSTORE       = 0x5d
	opDUP1         = 0x80
	opDUP4         = 0x83
	opLOG0         = 0xa0
	opCREATE       = 0xf0
	opCALL         = 0xf1
	opCALLCODE     = 0xf2
	opRETURN       = 0xf3
	opDELEGATECALL = 0xf4
	opCREATE2      = 0xf5
	opSTATICCALL   = 0xfa
	opREVERT       = 0xfd
	opINVALID      = 0xfe
	opSELFDESTRUCT = 0xff
)

type asmRef struct {
	pos   int
	label string
}

type asm struct {
	b      []byte
	labels map[string]int
	refs   []asmRef
}

func newAsm() *asm { return &asm{labels: map[string]int{}} }

func (a *asm) op(bs ...byte) { a.b = append(a.b, bs...) }

// push emits the shortest PUSHn (n>=1) of v.
func (a *asm) push(v uint64) {
	var buf [8]byte
	binary.BigEndian.PutUint64(buf[:], v)
	i := 0
	for i < 7 && buf[i] == 0 {
		i++
	}
	a.b = append(a.b, 0x5f+byte(8-i))
	a.b = append(a.b, buf[i:]...)
}

func (a *asm) pushN(bs []byte) {
	a.b = append(a.b, 0x5f+byte(len(bs)))
	a.b = append(a.b, bs...)
}

func (a *asm) pushAddr(x common.Address) { a.pushN(x[:]) }

func (a *asm) pushLabel(l string) {
	a.b = append(a.b, 0x61, 0, 0)
	a.refs = append(a.refs, asmRef{len(a.b) - 2, l})
}

func (a *asm) label(l string) { a.labels[l] = len(a.b); a.op(opJUMPDEST) }
func (a *asm) mark(l string)  { a.labels[l] = len(a.b) }
func (a *asm) raw(bs []byte)  { a.b = append(a.b, bs...) }

func (a *asm) finish() []byte {
	for _, r := range a.refs {
		p, ok := a.labels[r.label]
		if !ok || p > 0xffff {
			panic("asm: bad label " + r.label)
		}
		a.b[r.pos] = byte(p >> 8)
		a.b[r.pos+1] = byte(p)
	}
	return a.b
}

// ---------- frame tree ----------

type fkind int

const (
	kCall fkind = iota
	kCallCode
	kDelegate
	kStatic
	kCreate
	kCreate2
)

var kindName = []string{"CALL", "CALLCODE", "DELEGATECALL", "STATICCALL", "CREATE", "CREATE2"}

func (k fkind) creates() bool { return k == kCreate || k == kCreate2 }

type stepKind int

const (
	sSstore stepKind = iota
	sTstore
	sLog
	sTransfer
	sChild
	sAuthCall // AUTH + AUTHCALL(value) to an externally owned account, sponsored by the transaction origin
)

type step struct {
	k      stepKind
	slot   uint64
	val    uint64
	topics []uint64
	data   uint64
	to     int
	amount uint64
	child  *node
	key    int // sAuthCall: index of the authority key (unique per step)
}

type outcome int

const (
	oReturn outcome = iota
	oStop
	oSelfdestruct
	oRevert
	oRevertData
	oInvalid
	oOOGMem
	oOOGLoop
	oUnderflow
	oBadJump
	oCodeStoreOOG
	oMaxCode
)

var outName = []string{"return", "stop", "selfdestruct", "revert", "revertdata", "invalid", "oogmem", "oogloop", "underflow", "badjump", "codestoreoog", "maxcode"}

func (o outcome) fails() bool { return o >= oRevert }

const (
	gasBudget = iota
	gasAll
	gasTight
)

type node struct {
	id, span int // preorder id and subtree size in the ORIGINAL tree (kept by variants)
	kind     fkind
	value    uint64
	gasMode  int
	tightPct uint64
	steps    []step
	out      outcome
	benef    int
	deposit  int    // deployed-code length (create kinds, oReturn); >= span
	keep     uint64 // gas left for the init frame before the oversized RETURN (oCodeStoreOOG)
	parent   *node
	pre      int    // >0: the frame is a call to precompiled contract 0x..<pre> (leaf, no program); gasArg fixed by the generator
	preInput int    // 0 empty, 1 zeros of the natural input length, 2 junk (0x01..) of the natural length, 3 ten junk bytes
	alias    *node  // leaf only: this frame runs the program of an EARLIER leaf again (same callee address / same init code and salt)
	gasArg   uint64 // gas operand the parent passes (call family)
	need     uint64 // estimated gas need of this frame
}

// prog is the node whose program this frame executes (itself unless it re-enters an earlier leaf).
func (n *node) prog() *node {
	if n.alias != nil {
		return n.alias
	}
	return n
}

func (n *node) children() []*node {
	var cs []*node
	for _, s := range n.steps {
		if s.k == sChild {
			cs = append(cs, s.child)
		}
	}
	return cs
}

func (n *node) walk(f func(*node)) {
	f(n)
	for _, c := range n.children() {
		c.walk(f)
	}
}

// number assigns preorder ids starting at base, spans and parents.
func (n *node) number(base int) int {
	n.id = base
	next := base + 1
	for _, c := range n.children() {
		c.parent = n
		next = c.number(next)
	}
	n.span = next - base
	return next
}

// clone deep-copies the tree (ids/spans kept).
func (n *node) clone(parent *node) *node {
	c := *n
	c.parent = parent
	c.steps = make([]step, len(n.steps))
	for i, s := range n.steps {
		c.steps[i] = s
		if s.k == sChild {
			c.steps[i].child = s.child.clone(&c)
		}
	}
	return &c
}

func (n *node) find(id int) *node {
	var r *node
	n.walk(func(x *node) {
		if x.id == id {
			r = x
		}
	})
	return r
}

func (n *node) String() string {
	var sb strings.Builder
	fmt.Fprintf(&sb, "%s#%d", kindName[n.kind], n.id)
	if n.alias != nil {
		fmt.Fprintf(&sb, "=again#%d", n.alias.id)
	}
	if n.value > 0 {
		fmt.Fprintf(&sb, "(v%d)", n.value)
	}
	switch n.gasMode {
	case gasAll:
		sb.WriteString("(gas=all)")
	case gasTight:
		fmt.Fprintf(&sb, "(gas=%d%%)", n.tightPct)
	}
	if n.alias != nil {
		sb.WriteString(">" + outName[n.alias.out])
		return sb.String()
	}
	if n.pre > 0 {
		fmt.Fprintf(&sb, "->precompile%d(gas=%d,in=%s)", n.pre, n.gasArg, []string{"empty", "zeros", "junk", "short"}[n.preInput])
		return sb.String()
	}
	sb.WriteString("[")
	for i, s := range n.steps {
		if i > 0 {
			sb.WriteString(" ")
		}
		switch s.k {
		case sSstore:
			fmt.Fprintf(&sb, "S%d=%d", s.slot, s.val)
		case sTstore:
			fmt.Fprintf(&sb, "T%d=%d", s.slot, s.val)
		case sLog:
			fmt.Fprintf(&sb, "LOG%d", len(s.topics))
		case sTransfer:
			fmt.Fprintf(&sb, "X(e%d,%d)", s.to, s.amount)
		case sAuthCall:
			fmt.Fprintf(&sb, "AUTHCALL(e%d,%d)", s.to, s.amount)
		case sChild:
			sb.WriteString(s.child.String())
		}
	}
	sb.WriteString("]>" + outName[n.out])
	if n.out == oReturn && n.kind.creates() {
		fmt.Fprintf(&sb, "(%dB)", n.deposit)
	}
	return sb.String()
}

// ---------- addresses / layout ----------

const (
	nSlots     = 4
	logDataOff = 0x1000
	zeroOff    = 0x1400
	sigOff     = 0x1500
	preZeroOff = 0x2000 // never written: all-zero precompile input
	preJunkOff = 0x2400 // filled with 0x01 bytes
	initOff    = 0x1800
	satGas     = uint64(1) << 50
	maxCode    = 245760 // vm.MaxCodeSize
	depositGas = 6000   // CreateDataGas(200) x GasMagnification(30) per byte
)

var (
	burner = common.HexToAddress("0xb0b0000000000000000000000000000000000b0b")
	eoas   = []common.Address{
		common.HexToAddress("0xe0a0000000000000000000000000000000000001"),
		common.HexToAddress("0xe0a0000000000000000000000000000000000002"),
		common.HexToAddress("0xe0a0000000000000000000000000000000000003"),
	}
)

func codeAddr(id int) common.Address {
	var a common.Address
	a[0], a[1] = 0xc0, 0xde
	a[18], a[19] = byte(id>>8), byte(id)
	return a
}

// ---------- gas budgets ----------

func satAdd(a, b uint64) uint64 {
	if a+b < a || a+b > satGas {
		return satGas
	}
	return a + b
}

func satMul(a, b uint64) uint64 {
	if a == 0 || b == 0 {
		return 0
	}
	if a > satGas/b {
		return satGas
	}
	return a * b
}

func max64(a, b uint64) uint64 {
	if a > b {
		return a
	}
	return b
}

func estLen(n *node) uint64 {
	l := uint64(80)
	for _, s := range n.steps {
		if s.k == sChild && s.child.pre > 0 {
			l += 700
		} else if s.k == sChild {
			if s.child.kind.creates() {
				l += 60 + estLen(s.child.prog())
			} else {
				l += 70
			}
		} else if s.k == sChild && s.child.pre > 0 {
			l += 700
		} else if s.k == sAuthCall {
			l += 220
		} else {
			l += 90
		}
	}
	return l
}

// budget estimates (upper bounds, node gas schedule with x30 magnification) what the frame needs and
// fixes the gas operands. predFail tells which children are expected to fail (they burn what they get).
func budget(n *node, predFail func(*node) bool) uint64 {
	var after uint64
	switch n.out {
	case oSelfdestruct:
		after = 200_000
	case oCodeStoreOOG:
		after = satAdd(400_000, n.keep)
	case oMaxCode:
		after = 5_000_000
	case oOOGLoop:
		after = 150_000
	case oReturn:
		after = 20_000
		if n.kind.creates() {
			after = satAdd(after, satMul(uint64(n.deposit), depositGas+40))
		}
	default:
		after = 20_000
	}
	for i := len(n.steps) - 1; i >= 0; i-- {
		s := n.steps[i]
		switch s.k {
		case sSstore:
			after = satAdd(after, 610_000)
		case sTstore:
			after = satAdd(after, 5_000)
		case sLog:
			after = satAdd(after, 80_000)
		case sTransfer:
			after = satAdd(after, 70_000)
		case sAuthCall:
			after = satAdd(after, 400_000)
		case sChild:
			c := s.child
			if c.pre > 0 { // a failing precompile consumes everything it was given
				after = satAdd(200_000, max64(satAdd(satMul(c.gasArg, 65)/64, 1000), satAdd(c.gasArg, after)))
				continue
			}
			cn := budget(c.prog(), predFail)
			if c.kind.creates() || c.gasMode == gasAll {
				ovh := uint64(80_000)
				if c.kind.creates() {
					ovh = satAdd(1_200_000, satMul(estLen(c.prog()), 20))
				}
				x := satAdd(satMul(cn, 65)/64, 1000)
				if predFail(c) {
					after = satAdd(ovh, max64(x, satMul(after, 65)))
				} else {
					after = satAdd(ovh, max64(x, satAdd(cn, after)))
				}
				c.gasArg = ^uint64(0)
			} else {
				cb := satAdd(cn, cn/4)
				c.gasArg = cb
				if c.gasMode == gasTight {
					c.gasArg = cb / 100 * c.tightPct
				}
				after = satAdd(80_000, max64(satAdd(satMul(cb, 65)/64, 1000), satAdd(cb, after)))
			}
		}
	}
	n.need = after
	return after
}

// budgetTamed is budget() with a bound on what an endless loop can burn: a failing child that receives "all gas"
// multiplies the budget of everything above it, and a few of them in one tree give budgets of 10^13 gas, which
// a JUMPDEST/JUMP loop needs hours to exhaust. In such trees the loop leaves run out of gas through an
// impossible memory offset instead (same outcome class, no iterations).
const loopGasCap = 500_000_000

func budgetTamed(tree *node, predFail func(*node) bool) uint64 {
	need := budget(tree, predFail)
	if need <= loopGasCap {
		return need
	}
	changed := false
	tree.walk(func(n *node) {
		if n.out == oOOGLoop {
			n.out = oOOGMem
			changed = true
		}
	})
	if changed {
		need = budget(tree, predFail)
	}
	return need
}

// ---------- compiler ----------

// guardDeposit is set iff F-C12-b is listed as known.
var guardDeposit bool

type compiler struct {
	installs map[common.Address][]byte
	inits    map[int][]byte // init code of every create-kind node
}

func newCompiler() *compiler {
	return &compiler{installs: map[common.Address][]byte{}, inits: map[int][]byte{}}
}

func wordOf(v uint64) []byte {
	b := make([]byte, 32)
	binary.BigEndian.PutUint64(b[24:], v)
	return b
}

// logData is the 32-byte payload of a LOG step (non-zero in every byte group so truncation shows).
func logData(v uint64) []byte {
	b := make([]byte, 32)
	for i := 0; i < 4; i++ {
		binary.BigEndian.PutUint64(b[i*8:], v+uint64(i)*0x0101010101010101)
	}
	return b
}

func (c *compiler) body(n *node) []byte {
	a := newAsm()
	type blob struct {
		label string
		code  []byte
	}
	var blobs []blob
	if !n.kind.creates() {
		a.op(opCALLDATASIZE)
		a.pushLabel("obs")
		a.op(opJUMPI)
	}
	for _, s := range n.steps {
		switch s.k {
		case sSstore:
			a.push(s.val)
			a.push(s.slot)
			a.op(opSSTORE)
		case sTstore:
			a.push(s.val)
			a.push(s.slot)
			a.op(opTSTORE)
		case sLog:
			a.pushN(logData(s.data))
			a.push(logDataOff)
			a.op(opMSTORE)
			for i := len(s.topics) - 1; i >= 0; i-- {
				a.push(s.topics[i])
			}
			a.push(32)
			a.push(logDataOff)
			a.op(opLOG0 + byte(len(s.topics)))
		case sTransfer:
			a.push(0)
			a.push(0)
			a.push(0)
			a.push(0)
			a.push(s.amount)
			a.pushAddr(eoas[s.to])
			a.push(0)
			a.op(opCALL, opPOP)
		case sAuthCall:
			authority, v, r, sg := authFor(s.key, staticCtx(n))
			var commit [32]byte
			commit[31] = 1
			for i, w := range [][]byte{wordOf(uint64(v)), word(r), word(sg), commit[:]} {
				a.pushN(w)
				a.push(uint64(sigOff + 32*i))
				a.op(opMSTORE)
			}
			a.push(128)
			a.push(sigOff)
			a.pushAddr(authority)
			a.op(opAUTH, opPOP)
			a.push(0)
			a.push(0)
			a.push(0)
			a.push(0)
			a.push(0)
			a.push(s.amount)
			a.pushAddr(eoas[s.to])
			a.push(0)
			a.push(0)
			a.op(opAUTHCALL, opPOP)
		case sChild:
			ch := s.child
			if ch.pre > 0 {
				inOff, inLen := uint64(preZeroOff), uint64(preNaturalLen[ch.pre])
				switch ch.preInput {
				case 0:
					inLen = 0
				case 2, 3:
					inOff = preJunkOff
					if ch.preInput == 3 {
						inLen = 10
					}
					for w := uint64(0); w < (inLen+31)/32; w++ {
						a.pushN(bytes32(0x01))
						a.push(preJunkOff + 32*w)
						a.op(opMSTORE)
					}
				}
				a.push(0)
				a.push(0)
				a.push(inLen)
				a.push(inOff)
				if ch.kind == kCall || ch.kind == kCallCode {
					a.push(ch.value)
				}
				a.pushAddr(precompileAddr(ch.pre))
				a.push(ch.gasArg)
				a.op(map[fkind]byte{kCall: opCALL, kCallCode: opCALLCODE, kDelegate: opDELEGATECALL, kStatic: opSTATICCALL}[ch.kind])
				a.push(uint64(ch.id))
				a.op(opMSTORE8)
				continue
			}
			if ch.kind.creates() {
				init := c.body(ch.prog())
				c.inits[ch.prog().id] = init
				lbl := fmt.Sprintf("init%d", ch.id)
				blobs = append(blobs, blob{lbl, init})
				a.push(uint64(len(init)))
				a.pushLabel(lbl)
				a.push(initOff)
				a.op(opCODECOPY)
				if ch.kind == kCreate2 {
					a.push(uint64(ch.prog().id)) // salt
				}
				a.push(uint64(len(init)))
				a.push(initOff)
				a.push(ch.value)
				if ch.kind == kCreate2 {
					a.op(opCREATE2)
				} else {
					a.op(opCREATE)
				}
				a.op(opDUP1, opISZERO, opISZERO)
				a.push(uint64(ch.id))
				a.op(opMSTORE8)
				if ch.span > 1 {
					a.push(uint64(ch.span - 1))
					a.push(1)
					a.push(uint64(ch.id + 1))
					a.op(opDUP4, opEXTCODECOPY)
				}
				a.op(opPOP)
			} else {
				if ch.alias == nil {
					c.installs[codeAddr(ch.id)] = c.body(ch)
				}
				a.push(uint64(ch.span - 1))
				a.push(uint64(ch.id + 1))
				a.push(0)
				a.push(0)
				if ch.kind == kCall || ch.kind == kCallCode {
					a.push(ch.value)
				}
				a.pushAddr(codeAddr(ch.prog().id))
				a.push(ch.gasArg)
				switch ch.kind {
				case kCall:
					a.op(opCALL)
				case kCallCode:
					a.op(opCALLCODE)
				case kDelegate:
					a.op(opDELEGATECALL)
				case kStatic:
					a.op(opSTATICCALL)
				}
				a.push(uint64(ch.id))
				a.op(opMSTORE8)
			}
		}
	}
	switch n.out {
	case oReturn:
		if n.kind.creates() {
			if guardDeposit {
				// steering around F-C12-b: never attempt a code deposit that cannot be paid (fail cleanly instead)
				a.push(uint64(n.deposit)*depositGas + 30_000)
				a.op(opGAS, opGT)
				a.pushLabel("pay")
				a.op(opJUMPI, opINVALID)
				a.label("pay")
			}
			a.push(uint64(n.deposit))
			a.push(uint64(n.id))
		} else {
			a.push(uint64(n.span - 1))
			a.push(uint64(n.id + 1))
		}
		a.op(opRETURN)
	case oStop:
		a.op(opSTOP)
	case oSelfdestruct:
		a.pushAddr(eoas[n.benef])
		a.op(opSELFDESTRUCT)
	case oRevert:
		a.push(0)
		a.push(0)
		a.op(opREVERT)
	case oRevertData:
		a.push(32)
		a.push(zeroOff)
		a.op(opREVERT)
	case oInvalid:
		a.op(opINVALID)
	case oOOGMem:
		a.pushN([]byte{0xff, 0xff, 0xff, 0xff, 0xff}) // beyond the gas-overflow bound: no allocation is attempted
		a.op(opMLOAD)
	case oOOGLoop:
		a.label("loop")
		a.pushLabel("loop")
		a.op(opJUMP)
	case oUnderflow:
		a.op(opPOP)
	case oBadJump:
		a.push(1)
		a.op(opJUMP)
	case oCodeStoreOOG:
		for i := 0; i < 2; i++ { // hand everything above `keep` to a contract that fails at once
			a.push(0)
			a.push(0)
			a.push(0)
			a.push(0)
			a.push(0)
			a.pushAddr(burner)
			a.push(n.keep)
			a.op(opGAS, opSUB, opCALL, opPOP)
		}
		a.push(depositGas)
		a.op(opGAS, opDIV)
		a.push(1)
		a.op(opADD) // L = GAS/6000+1: the deposit costs more than what is left
		a.push(uint64(n.id))
		a.op(opRETURN)
	case oMaxCode:
		a.push(maxCode + 1)
		a.push(0)
		a.op(opRETURN)
	}
	if !n.kind.creates() {
		a.label("obs")
		for s := uint64(0); s < nSlots; s++ {
			a.push(s)
			a.op(opTLOAD)
			a.push(32 * s)
			a.op(opMSTORE)
		}
		a.push(32 * nSlots)
		a.push(0)
		a.op(opRETURN)
	}
	for _, b := range blobs {
		a.mark(b.label)
		a.raw(b.code)
	}
	return a.finish()
}

// staticCtx is the storage-context address of n when it is known before execution (no created
// contract on the CALLCODE/DELEGATECALL chain); ok=false otherwise.
func staticCtxOK(n *node) (common.Address, bool) {
	for x := n; x != nil; x = x.parent {
		switch x.kind {
		case kCall, kStatic:
			return codeAddr(x.id), true
		case kCreate, kCreate2:
			return common.Address{}, false
		}
	}
	return common.Address{}, false
}

func staticCtx(n *node) common.Address {
	a, ok := staticCtxOK(n)
	if !ok {
		panic("AUTHCALL step in a frame whose address is not known in advance")
	}
	return a
}

// natural input length of precompile 1..18
var preNaturalLen = []int{0, 128, 32, 32, 32, 96, 128, 96, 192, 213, 256, 160, 160, 512, 288, 288, 384, 64, 128}

func precompileAddr(i int) common.Address {
	var a common.Address
	a[19] = byte(i)
	return a
}

func isPrecompileAddr(a common.Address) bool {
	for i := 0; i < 19; i++ {
		if a[i] != 0 {
			return false
		}
	}
	return a[19] >= 1 && a[19] <= 18
}

func bytes32(b byte) []byte {
	o := make([]byte, 32)
	for i := range o {
		o[i] = b
	}
	return o
}

// preMinCost: lower bound of RequiredGas for any input (0 = not relied upon).
var preMinCost = []uint64{0, 3000, 60, 600, 15, 0, 150, 6000, 45000, 0, 600, 12000, 0, 4500, 55000, 0, 115000, 5500, 110000}

// preMustFail: cases in which the precompile call cannot succeed whatever else happens: less gas
// (operand + 2300 stipend of a value-bearing CALL/CALLCODE) than the minimum price, or an input the
// precompile rejects by its length / an off-curve point.
func preMustFail(n *node) string {
	avail := n.gasArg
	if n.value > 0 && (n.kind == kCall || n.kind == kCallCode) {
		avail += 2300
	}
	if avail < preMinCost[n.pre] {
		return "gas below the precompile's price"
	}
	inLen := preNaturalLen[n.pre]
	switch n.preInput {
	case 0:
		inLen = 0
	case 3:
		inLen = 10
	}
	switch n.pre {
	case 9:
		if inLen != 213 || n.preInput == 2 {
			return "blake2F input rejected"
		}
	case 8:
		if inLen%192 != 0 || n.preInput == 2 {
			return "bn256 pairing input rejected"
		}
	case 6, 7:
		if n.preInput == 2 {
			return "bn256 point not on curve"
		}
	case 10, 11, 13, 14, 16, 17, 18:
		if inLen != preNaturalLen[n.pre] {
			return "bls12-381 input length rejected"
		}
	}
	return ""
}
