package c12

// Domain 2: sequences of transactions on ONE AccountDB, and the probes of the recorded findings.

import (
	"bytes"
	"fmt"
	"math/big"
	"strings"
	"testing"

	"com.tuntun.rangers/node/src/common"
	"pgregory.net/rapid"

	"verifharness/internal/evmh"
	"verifharness/internal/stats"
)

// observerCode calls every target with one byte of calldata (which selects the TLOAD routine every
// generated contract carries) and returns the 4 words each of them read.
func observerCode(targets []common.Address) []byte {
	a := newAsm()
	for k, x := range targets {
		a.push(32 * nSlots)
		a.push(uint64(32 + 32*nSlots*k))
		a.push(1)
		a.push(0)
		a.push(0)
		a.pushAddr(x)
		a.push(400_000)
		a.op(opCALL, opPOP)
	}
	a.push(uint64(32 * nSlots * len(targets)))
	a.push(32)
	a.op(opRETURN)
	return a.finish()
}

type seqTx struct {
	tree     *node
	c        *compiler
	gas      uint64
	observer bool
	obsAddr  common.Address
	targets  []common.Address
}

func scratchLeaks(e *env, checkTransient bool) (transient, access []string) {
	for _, x := range e.universe() {
		for s := uint64(0); s < nSlots; s++ {
			if checkTransient {
				if v := e.st.GetTransientState(x, hashOfU(s)); v != (common.Hash{}) {
					transient = append(transient, fmt.Sprintf("after Prepare for tx %d: transient %s[%d] = %s left by an earlier transaction", e.txIndex, x.GetHexString(), s, v.Hex()))
				}
			}
			if _, in := e.st.SlotInAccessList(x, hashOfU(s)); in {
				access = append(access, fmt.Sprintf("after Prepare for tx %d: slot %s[%d] still in the access list", e.txIndex, x.GetHexString(), s))
			}
		}
		if e.st.AddressInAccessList(x) {
			access = append(access, fmt.Sprintf("after Prepare for tx %d: address %s still in the access list", e.txIndex, x.GetHexString()))
		}
	}
	return
}

func TestTxSequences(t *testing.T) {
	skipIfExec(t)
	knownA := stats.IsKnown("F-C12-a")
	knownB := stats.IsKnown("F-C12-b")
	stats.Check(t, 400, 4000, func(t *rapid.T) {
		e := newEnv()
		ntx := rapid.IntRange(2, 5).Draw(t, "ntx")
		var txs []*seqTx
		var callAddrs []common.Address
		for i := 0; i < ntx; i++ {
			if i > 0 && rapid.IntRange(0, 2).Draw(t, "observer") == 0 {
				x := &seqTx{observer: true, obsAddr: codeAddr(i*32 + 31), targets: append([]common.Address(nil), callAddrs...)}
				evmh.Install(e.st, x.obsAddr, observerCode(x.targets))
				e.codes[x.obsAddr] = observerCode(x.targets)
				e.fixed[x.obsAddr] = true
				txs = append(txs, x)
				continue
			}
			rootKind := kCall
			if rapid.IntRange(0, 3).Draw(t, "rootCreate") == 0 {
				rootKind = kCreate
			}
			tree, steered := genTree(t, rootKind, 7, 3, i*32, knownB)
			if steered {
				stats.Exclude("F-C12-b")
			}
			need := budgetTamed(tree, predFailOf(tree, e.m, false))
			x := &seqTx{tree: tree, gas: satAdd(need, need/4)}
			x.c = e.install(tree, true, nil)
			tree.walk(func(n *node) {
				if !n.kind.creates() {
					callAddrs = append(callAddrs, codeAddr(n.id))
				}
			})
			txs = append(txs, x)
		}
		if rapid.Bool().Draw(t, "cold") {
			if err := e.goCold(); err != nil {
				t.Fatalf("reopen: %v", err)
			}
		}
		render := func() string {
			var l []string
			for i, x := range txs {
				if x.observer {
					l = append(l, fmt.Sprintf("tx%d: observer of %d contracts", i, len(x.targets)))
				} else {
					l = append(l, fmt.Sprintf("tx%d: %s", i, x.tree))
				}
			}
			return strings.Join(l, "\n    ")
		}
		fail := func(d []string) {
			if len(d) > 12 {
				d = append(d[:12], "...")
			}
			t.Fatalf("C12 violated\n    %s\n  %s", render(), strings.Join(d, "\n  "))
		}
		stale := false // a known transient leak was seen: transient comparisons are suspended for the rest of the case
		var keys []string
		nontrivial := false
		usedScratch := false
		for i, x := range txs {
			if i > 0 && usedScratch {
				nontrivial = true
			}
			after := func() {
				if i == 0 {
					return
				}
				tr, acc := scratchLeaks(e, !stale)
				if len(tr) > 0 && knownA {
					if !stale {
						stats.Exclude("F-C12-a")
					}
					stale = true
					tr = nil
				}
				if d := append(tr, acc...); len(d) > 0 {
					fail(d)
				}
				if e.st.GetRefund() != 0 {
					stats.Class("seq:refund_counter_nonzero_after_prepare(not asserted)")
				}
			}
			if x.observer {
				stats.Class("seq:tx_observer")
				hash := txHashOf(e.txIndex)
				e.st.Prepare(hash, common.Hash{}, e.txIndex)
				after()
				e.st.SetNonce(evmh.Origin, e.st.GetNonce(evmh.Origin)+1)
				e.m.acct(evmh.Origin).nonce++
				snap := e.st.Snapshot()
				res := evmh.Call(e.st, evmh.NewContext(evmh.Origin, 100_000_000), evmh.Origin, x.obsAddr, nil, 100_000_000, new(big.Int))
				if res.Panicked() {
					t.Fatalf("Go panic escaped the EVM: %v\n%s", res.Panic, res.Stack)
				}
				if res.Err != nil {
					e.st.RevertToSnapshot(snap)
					t.Fatalf("VERIF-INCONCLUSIVE observer transaction failed: %v", res.Err)
				}
				if !stale && !bytes.Equal(res.Ret, make([]byte, 32*nSlots*len(x.targets))) {
					for k := range x.targets {
						w := res.Ret[32*nSlots*k : 32*nSlots*(k+1)]
						if !bytes.Equal(w, make([]byte, 32*nSlots)) {
							fail([]string{fmt.Sprintf("tx %d (observer, emits and stores nothing): TLOAD inside %s returned %x - transient storage written by an earlier transaction", i, x.targets[k].GetHexString(), w)})
						}
					}
				}
				e.m.tr = map[common.Address]map[uint64]uint64{}
				e.m.logs = nil
				r := &txResult{hash: hash, index: e.txIndex, logBase: e.logBase, rp: newReplayer(e.m, nil, nil), tree: &node{id: i*32 + 31, span: 1}}
				e.txIndex++
				e.txs = append(e.txs, r)
				keys = append(keys, "obs")
			} else {
				stats.Class("seq:tx_tree")
				r, err := e.exec(x.tree, x.c, x.gas, after)
				if err != nil {
					fail([]string{err.Error()})
				}
				if r.badByte != "" {
					fail([]string{r.badByte})
				}
				if len(r.rp.viol) > 0 {
					fail(r.rp.viol)
				}
				if !e.m.transientEmpty() {
					usedScratch = true
					if i+1 < len(txs) {
						stats.Class("seq:tx_follows_TSTORE")
					}
				}
				if len(r.rp.created) > 0 {
					usedScratch = true
					if i+1 < len(txs) {
						stats.Class("seq:tx_follows_CREATE(warm address)")
					}
				}
				if len(r.logs) > 0 {
					usedScratch = true
					if i+1 < len(txs) {
						stats.Class("seq:tx_follows_LOG")
					}
				}
				keys = append(keys, shapeKey(x.tree, r.rp.used))
			}
			// state and every receipt so far
			d := compareStateOpt(e, !stale)
			for _, r := range e.txs {
				d = append(d, e.compareLogs(r)...)
			}
			if len(d) > 0 {
				fail(d)
			}
		}
		key := ""
		if nontrivial {
			key = "seq|" + strings.Join(keys, "|")
		}
		stats.Case(key, fmt.Sprintf("seq:len_%d", ntx))
		stats.Sample(map[string]interface{}{"sequence": render()})
	})
}

func compareStateOpt(e *env, transient bool) []string {
	d := e.compareState()
	if transient {
		return d
	}
	var out []string
	for _, x := range d {
		if !strings.HasPrefix(x, "transient ") {
			out = append(out, x)
		}
	}
	return out
}

// ---------- probes of recorded findings ----------

// F-C12-a: AccountDB.Prepare resets the access list but not the transient storage.
func TestProbeTransientSurvivesPrepare(t *testing.T) {
	skipIfExec(t)
	e := newEnv()
	w := &node{kind: kCall, steps: []step{{k: sTstore, slot: 0, val: 7}}, out: oReturn}
	w.number(0)
	budget(w, func(*node) bool { return false })
	c := e.install(w, true, nil)
	obs := codeAddr(99)
	evmh.Install(e.st, obs, observerCode([]common.Address{codeAddr(0)}))
	if _, err := e.exec(w, c, 10_000_000, nil); err != nil {
		t.Fatal(err)
	}
	// next transaction of the block, as core/vmexecutor.go starts it
	e.st.Prepare(txHashOf(1), common.Hash{}, 1)
	direct := e.st.GetTransientState(codeAddr(0), hashOfU(0))
	res := evmh.Call(e.st, evmh.NewContext(evmh.Origin, 10_000_000), evmh.Origin, obs, nil, 10_000_000, new(big.Int))
	if res.Panicked() || res.Err != nil || len(res.Ret) != 32*nSlots {
		t.Fatalf("observer failed: %v %v", res.Err, res.Panic)
	}
	seen := new(big.Int).SetBytes(res.Ret[:32])
	present := direct != (common.Hash{}) || seen.Sign() != 0
	stats.Probe(t, "F-C12-a", "C12", present, fmt.Sprintf("tx0 TSTORE(0,7) in contract A; after AccountDB.Prepare for tx1 GetTransientState(A,0)=%s and TLOAD(0) executed by tx1 inside A returns %s (expected 0)", direct.Hex(), seen))
}

// F-C12-b: evm.create keeps the state changes of a creation that fails with ErrCodeStoreOutOfGas.
func TestProbeCodeStoreOutOfGasNotReverted(t *testing.T) {
	skipIfExec(t)
	saved := guardDeposit
	guardDeposit = false
	defer func() { guardDeposit = saved }()
	e := newEnv()
	child := &node{kind: kCreate, value: 1, steps: []step{{k: sSstore, slot: 0, val: 1}}, out: oCodeStoreOOG, keep: 700_000}
	root := &node{kind: kCall, steps: []step{{k: sChild, child: child}}, out: oReturn}
	root.number(0)
	child.deposit = 1
	need := budgetTamed(root, func(n *node) bool { return n == child })
	c := e.install(root, true, nil)
	r, err := e.exec(root, c, need*2, nil)
	if err != nil {
		t.Fatal(err)
	}
	addr := createAddress(codeAddr(0), 0)
	reportedFailed := r.rootOK && r.obs[1] == 0
	persisted := e.st.Exist(addr) && e.st.GetNonce(addr) == 1 && e.st.GetState(addr, hashOfU(0)) == hashOfU(1) && e.st.GetBalance(addr).Sign() > 0
	if !reportedFailed {
		t.Fatalf("VERIF-INCONCLUSIVE probe did not reach the code-store-out-of-gas path: rootOK=%v obs=%v err=%v", r.rootOK, r.obs, r.res.Err)
	}
	stats.Probe(t, "F-C12-b", "C12", persisted, fmt.Sprintf("CALL -> CREATE(value 1, init code SSTORE(0,1); RETURN(0, GAS/6000+1)): CREATE pushed 0 (failure) but %s exists=%v nonce=%d slot0=%s balance=%s",
		addr.GetHexString(), e.st.Exist(addr), e.st.GetNonce(addr), e.st.GetState(addr, hashOfU(0)).Hex(), e.st.GetBalance(addr)))
}
