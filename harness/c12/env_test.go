package c12

// Execution environment shared by the frame-tree and transaction-sequence checks: one AccountDB
// plus the reference state, transactions executed the way core/vmexecutor.go + the contract
// executor do (Prepare, nonce bump, Snapshot, evm.Call/Create, revert on failure, GetLogs).

import (
	"bytes"
	"fmt"
	"math/big"

	"com.tuntun.rangers/node/src/common"
	"com.tuntun.rangers/node/src/storage/account"

	"verifharness/internal/evmh"
	"verifharness/internal/ref"
)

type env struct {
	st      *account.AccountDB
	adb     account.AccountDatabase
	m       *mstate
	txIndex int
	logBase uint // block-global log counter expected before the next transaction
	fixed   map[common.Address]bool
	codes   map[common.Address][]byte
	txs     []*txResult
}

var bigFund = new(big.Int).Exp(big.NewInt(10), big.NewInt(24), nil)

func newEnv() *env {
	st, adb := evmh.NewStateDB()
	e := &env{st: st, adb: adb, m: newMState(), fixed: map[common.Address]bool{}, codes: map[common.Address][]byte{}}
	st.AddBalance(evmh.Origin, bigFund)
	e.m.acct(evmh.Origin).bal.Set(bigFund)
	st.AddBalance(eoas[0], big.NewInt(5))
	e.m.acct(eoas[0]).bal.SetInt64(5)
	evmh.Install(st, burner, []byte{opINVALID})
	e.codes[burner] = []byte{opINVALID}
	e.fixed[evmh.Origin], e.fixed[burner] = true, true
	for _, x := range eoas {
		e.fixed[x] = true
	}
	for i := 1; i <= 18; i++ {
		e.fixed[precompileAddr(i)] = true
	}
	return e
}

func predFailOf(tree *node, m *mstate, rootCreate bool) func(*node) bool {
	rp := newReplayer(m.clone(), nil, map[int][]byte{})
	rp.child(tree, evmh.Origin, false)
	return func(c *node) bool {
		if ok, reached := rp.used[c.id]; reached {
			return !ok
		}
		return c.out.fails()
	}
}

// install compiles the tree and puts the code of its call-family nodes into the state. With fund,
// every code address also gets 1000 units and the given initial storage.
func (e *env) install(tree *node, fund bool, initStore map[int]map[uint64]uint64) *compiler {
	c := newCompiler()
	root := c.body(tree)
	if tree.kind.creates() {
		c.inits[tree.id] = root
	} else {
		c.installs[codeAddr(tree.id)] = root
	}
	for _, a := range sortedAddrs(keysOf(c.installs)) {
		evmh.Install(e.st, a, c.installs[a])
		e.codes[a] = c.installs[a]
		e.fixed[a] = true
	}
	if fund {
		tree.walk(func(n *node) {
			if n.kind.creates() {
				return
			}
			a := codeAddr(n.id)
			e.st.AddBalance(a, big.NewInt(1000))
			e.m.acct(a).bal.SetInt64(1000)
			for s, v := range initStore[n.id] {
				e.st.SetState(a, common.BytesToHash(wordOf(s)), common.BytesToHash(wordOf(v)))
				e.m.acct(a).st[s] = v
			}
		})
	}
	return c
}

func keysOf(m map[common.Address][]byte) map[common.Address]bool {
	r := map[common.Address]bool{}
	for k := range m {
		r[k] = true
	}
	return r
}

// goCold commits the prepared state and reopens it at its root, as a block executor does.
func (e *env) goCold() error {
	st, _, err := evmh.Reopen(e.st, e.adb)
	if err != nil {
		return err
	}
	e.st = st
	return nil
}

type txResult struct {
	tree    *node
	hash    common.Hash
	res     evmh.Result
	rootOK  bool
	obs     map[int]byte
	rp      *replayer
	logs    []mlog // expected receipt logs
	logBase uint
	index   int
	gas     uint64
	badByte string
}

func txHashOf(i int) common.Hash {
	return common.Hash(ref.Keccak256([]byte(fmt.Sprintf("c12-tx-%d", i))))
}

// exec runs one transaction whose root frame is tree (CALL from Origin, or contract creation).
// afterPrepare, if set, is called between Prepare and the execution.
func (e *env) exec(tree *node, c *compiler, gas uint64, afterPrepare func()) (*txResult, error) {
	r := &txResult{tree: tree, hash: txHashOf(e.txIndex), index: e.txIndex, logBase: e.logBase, gas: gas}
	e.st.Prepare(r.hash, common.Hash{}, e.txIndex) // core/vmexecutor.go (proposal 013)
	if afterPrepare != nil {
		afterPrepare()
	}
	ctx := evmh.NewContext(evmh.Origin, gas)
	snap := e.st.Snapshot()
	if tree.kind.creates() {
		r.res = evmh.Create(e.st, ctx, evmh.Origin, c.inits[tree.id], gas, new(big.Int).SetUint64(tree.value))
	} else {
		e.st.SetNonce(evmh.Origin, e.st.GetNonce(evmh.Origin)+1) // contract executor, proposal 007
		e.m.acct(evmh.Origin).nonce++
		r.res = evmh.Call(e.st, ctx, evmh.Origin, codeAddr(tree.id), nil, gas, new(big.Int).SetUint64(tree.value))
	}
	if r.res.Panicked() {
		return r, fmt.Errorf("Go panic escaped the EVM: %v\n%s", r.res.Panic, r.res.Stack)
	}
	r.rootOK = r.res.Err == nil
	if !r.rootOK {
		e.st.RevertToSnapshot(snap)
		// core/vmexecutor.go bumps the source nonce of a failed contract transaction after the revert
		e.st.SetNonce(evmh.Origin, e.st.GetNonce(evmh.Origin)+1)
	}
	// decode the report
	r.obs = map[int]byte{tree.id: 0}
	if r.rootOK {
		r.obs[tree.id] = 1
		var rep []byte
		if tree.kind.creates() {
			code := e.st.GetCode(r.res.Addr)
			if len(code) >= tree.span {
				rep = code[1:tree.span]
			}
		} else if tree.out == oReturn {
			rep = r.res.Ret
		}
		if tree.span > 1 && tree.out == oReturn && len(rep) != tree.span-1 {
			r.badByte = fmt.Sprintf("root report has %d bytes, want %d", len(rep), tree.span-1)
		}
		for k, b := range rep {
			r.obs[tree.id+1+k] = b
			if b > 1 {
				r.badByte = fmt.Sprintf("status byte of #%d is %d", tree.id+1+k, b)
			}
		}
	}
	// reference semantics
	e.m.tr = map[common.Address]map[uint64]uint64{}
	e.m.logs = nil
	r.rp = newReplayer(e.m, r.obs, c.inits)
	if why := r.rp.child(tree, evmh.Origin, false); why != "" {
		return r, fmt.Errorf("harness: root step refused: %s", why)
	}
	e.m = r.rp.m
	r.logs = append([]mlog(nil), e.m.logs...)
	e.logBase += uint(len(r.logs))
	e.txIndex++
	e.txs = append(e.txs, r)
	return r, nil
}

// universe lists every address the checks look at.
func (e *env) universe() []common.Address {
	u := map[common.Address]bool{}
	for a := range e.fixed {
		u[a] = true
	}
	for _, t := range e.txs {
		for _, a := range t.rp.created {
			u[a] = true
		}
		for a := range t.rp.authorities {
			u[a] = true
		}
	}
	return sortedAddrs(u)
}

func hashOfU(v uint64) common.Hash { return common.BytesToHash(wordOf(v)) }

// compareState checks balances, nonces, code, storage, transient storage, self-destruct marks and
// (for addresses derived for CREATE frames) existence against the reference state.
func (e *env) compareState() []string {
	var d []string
	last := e.txs[len(e.txs)-1]
	for _, x := range e.universe() {
		a, ok := e.m.a[x]
		if !ok {
			a = &macct{bal: new(big.Int), st: map[uint64]uint64{}}
		}
		name := x.GetHexString()
		if got := e.st.GetBalance(x); got.Cmp(a.bal) != 0 {
			d = append(d, fmt.Sprintf("balance of %s = %s, expected %s", name, got, a.bal))
		}
		if got := e.st.GetNonce(x); got != a.nonce {
			d = append(d, fmt.Sprintf("nonce of %s = %d, expected %d", name, got, a.nonce))
		}
		for s := uint64(0); s < nSlots; s++ {
			if got := e.st.GetState(x, hashOfU(s)); got != hashOfU(a.st[s]) {
				d = append(d, fmt.Sprintf("storage %s[%d] = %s, expected %d", name, s, got.Hex(), a.st[s]))
			}
			if got := e.st.GetTransientState(x, hashOfU(s)); got != hashOfU(e.m.tr[x][s]) {
				d = append(d, fmt.Sprintf("transient %s[%d] = %s, expected %d", name, s, got.Hex(), e.m.tr[x][s]))
			}
		}
		if got := e.st.HasSuicided(x); got != a.suicided {
			d = append(d, fmt.Sprintf("self-destruct mark of %s = %v, expected %v", name, got, a.suicided))
		}
		var wantCode []byte
		if c, isFixed := e.codes[x]; isFixed {
			wantCode = c
		} else if a.codeNode != nil {
			wantCode = e.rpOf(a.codeNode).expectedCode(a.codeNode)
		}
		if got := e.st.GetCode(x); !bytes.Equal(got, wantCode) {
			d = append(d, fmt.Sprintf("code of %s = %d bytes %x..., expected %d bytes %x...", name, len(got), head(got, 24), len(wantCode), head(wantCode, 24)))
		}
		if isPrecompileAddr(x) {
			if got := e.st.Exist(x); got != a.object {
				d = append(d, fmt.Sprintf("account object of precompile %s exists=%v, expected %v", name, got, a.object))
			}
		}
		if _, isCreated := e.createdSet()[x]; isCreated {
			if got, want := e.st.Exist(x), a.nonce > 0; got != want {
				d = append(d, fmt.Sprintf("existence of create target %s = %v, expected %v", name, got, want))
			}
		}
	}
	_ = last
	return d
}

func (e *env) rpOf(n *node) *replayer {
	for _, t := range e.txs {
		if n.id >= t.tree.id && n.id < t.tree.id+t.tree.span {
			return t.rp
		}
	}
	return e.txs[len(e.txs)-1].rp
}

func head(b []byte, n int) []byte {
	if len(b) > n {
		return b[:n]
	}
	return b
}

// compareLogs checks that the logs recorded for transaction r are exactly the expected ones.
func (e *env) compareLogs(r *txResult) []string {
	var d []string
	got := e.st.GetLogs(r.hash)
	if len(got) != len(r.logs) {
		d = append(d, fmt.Sprintf("tx %d: %d logs recorded, expected %d", r.index, len(got), len(r.logs)))
	}
	for i := 0; i < len(got) && i < len(r.logs); i++ {
		g, w := got[i], r.logs[i]
		bad := g.Address != w.addr || len(g.Topics) != len(w.topics) || !bytes.Equal(g.Data, logData(w.data))
		for k := 0; !bad && k < len(w.topics); k++ {
			bad = g.Topics[k] != hashOfU(w.topics[k])
		}
		if bad {
			d = append(d, fmt.Sprintf("tx %d log %d = {%s topics %d data %x}, expected {%s topics %d data %x}", r.index, i,
				g.Address.GetHexString(), len(g.Topics), head(g.Data, 8), w.addr.GetHexString(), len(w.topics), head(logData(w.data), 8)))
		}
		if g.TxHash != r.hash || g.TxIndex != uint(r.index) {
			d = append(d, fmt.Sprintf("tx %d log %d carries tx hash %s index %d", r.index, i, g.TxHash.Hex(), g.TxIndex))
		}
		if g.Index != r.logBase+uint(i) {
			d = append(d, fmt.Sprintf("tx %d log %d has block-wide index %d, expected %d", r.index, i, g.Index, r.logBase+uint(i)))
		}
	}
	return d
}

func originAddr() common.Address { return evmh.Origin }

func (e *env) createdSet() map[common.Address]bool {
	u := map[common.Address]bool{}
	for _, t := range e.txs {
		for _, a := range t.rp.created {
			u[a] = true
		}
	}
	return u
}
