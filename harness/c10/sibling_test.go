package c10

// Memory of a fresh frame is zero, whatever earlier frames of the same transaction wrote into theirs: a parent
// calls a first child that fills its memory with non-zero words and ends (RETURN / STOP / REVERT), possibly grows
// its own memory, then calls a second child that reads memory it never wrote (MLOAD, KECCAK256, RETURN of a
// fresh range, MCOPY source) and hands the result back. The expected result needs no interpreter: zeros.

import (
	"bytes"
	"fmt"
	"math/big"
	"testing"

	"pgregory.net/rapid"

	"com.tuntun.rangers/node/src/common"

	"verifharness/internal/evmh"
	"verifharness/internal/ref"
	"verifharness/internal/stats"
)

var (
	sibA = common.HexToAddress("0x00000000000000000000000000000000000c10a1")
	sibB = common.HexToAddress("0x00000000000000000000000000000000000c10b2")
)

func pushAddrBytes(a common.Address) []byte { return append([]byte{0x73}, a.Bytes()...) }

func TestFreshMemoryInSiblingFrames(t *testing.T) {
	stats.Check(t, 1500, 15000, func(t *rapid.T) {
		evmh.SetProposalsUpTo(rapid.SampledFrom([]int{13, 14, 22, 26, 99}).Draw(t, "config"))
		// child A: writes ff..ff words at 0, 32, ... up to fillWords, then ends
		fillWords := rapid.SampledFrom([]int{1, 2, 4, 33, 130}).Draw(t, "fillWords")
		var a []byte
		ff := bytes.Repeat([]byte{0xff}, 32)
		for w := 0; w < fillWords; w++ {
			a = append(a, 0x7f)
			a = append(a, ff...)
			a = append(a, pushInt(32*w)...)
			a = append(a, 0x52)
		}
		endA := rapid.SampledFrom([]string{"return", "stop", "revert"}).Draw(t, "childAEnd")
		switch endA {
		case "return":
			a = append(a, pushInt(32*fillWords)...)
			a = append(a, 0x60, 0x00, 0xf3)
		case "revert":
			a = append(a, 0x60, 0x20, 0x60, 0x00, 0xfd)
		default:
			a = append(a, 0x00)
		}
		// child B: reads fresh memory
		off := rapid.SampledFrom([]int{0, 1, 31, 32, 64, 1000, 4000}).Draw(t, "readOffset")
		read := rapid.SampledFrom([]string{"mload", "keccak", "return_fresh"}).Draw(t, "read")
		var b []byte
		var want []byte
		switch read {
		case "mload":
			b = append(b, pushInt(off)...)
			b = append(b, 0x51)               // MLOAD
			b = append(b, pushInt(off+64)...) // store the result somewhere else
			b = append(b, 0x52)               // MSTORE
			b = append(b, 0x60, 0x20)         // size 32
			b = append(b, pushInt(off+64)...)
			b = append(b, 0xf3)
			want = make([]byte, 32)
		case "keccak":
			b = append(b, 0x60, 0x40)
			b = append(b, pushInt(off)...)
			b = append(b, 0x20)                   // KECCAK256(off, 64)
			b = append(b, 0x61, 0x20, 0x00, 0x52) // MSTORE(0x2000, h)
			b = append(b, 0x60, 0x20, 0x61, 0x20, 0x00, 0xf3)
			h := ref.Keccak256(make([]byte, 64))
			want = h[:]
		default:
			b = append(b, 0x60, 0x40)
			b = append(b, pushInt(off)...)
			b = append(b, 0xf3) // RETURN(off, 64) of memory never written
			want = make([]byte, 64)
		}
		// parent: CALL A; optionally grow own memory with ff; CALL/STATICCALL B with out area at 0x100; RETURN it
		var p []byte
		callA := rapid.SampledFrom([]byte{0xf1, 0xfa, 0xf4}).Draw(t, "callAKind")
		p = append(p, 0x60, 0x00, 0x60, 0x00, 0x60, 0x00, 0x60, 0x00)
		if callA == 0xf1 {
			p = append(p, 0x60, 0x00)
		}
		p = append(p, pushAddrBytes(sibA)...)
		p = append(p, 0x5a, callA, 0x50)
		if rapid.Bool().Draw(t, "parentWrites") {
			p = append(p, 0x7f)
			p = append(p, ff...)
			p = append(p, pushInt(rapid.SampledFrom([]int{0, 32, 2000}).Draw(t, "parentOff"))...)
			p = append(p, 0x52)
		}
		callB := rapid.SampledFrom([]byte{0xf1, 0xfa}).Draw(t, "callBKind")
		p = append(p, pushInt(len(want))...)
		p = append(p, 0x61, 0x30, 0x00) // out offset 0x3000
		p = append(p, 0x60, 0x00, 0x60, 0x00)
		if callB == 0xf1 {
			p = append(p, 0x60, 0x00)
		}
		p = append(p, pushAddrBytes(sibB)...)
		p = append(p, 0x5a, callB, 0x50)
		p = append(p, pushInt(len(want))...)
		p = append(p, 0x61, 0x30, 0x00, 0xf3)

		st := evmh.NewState()
		evmh.Install(st, sibA, a)
		evmh.Install(st, sibB, b)
		evmh.Install(st, evmh.Contract, p)
		gas := uint64(100_000_000)
		res := evmh.Call(st, evmh.NewContext(evmh.Origin, gas), evmh.Origin, evmh.Contract, nil, gas, new(big.Int))
		ctx := fmt.Sprintf("\nchild A (fills %d words, ends with %s): %x\nchild B (%s at offset %d): %x\nparent: %x", fillWords, endA, a, read, off, b, p)
		if res.Panicked() {
			t.Fatalf("node EVM panicked: %v%s", res.Panic, ctx)
		}
		if res.Err != nil {
			t.Fatalf("parent frame failed: %v%s", res.Err, ctx)
		}
		if !bytes.Equal(res.Ret, want) {
			t.Fatalf("a frame read memory it never wrote and did not get zeros (memory of a new frame starts empty, whatever an earlier frame left behind)\n node: %x\n spec: %x%s", res.Ret, want, ctx)
		}
		stats.Case(fmt.Sprintf("sibling|%d|%s|%s|%d|%x|%x", fillWords, endA, read, off, callA, callB), "family:sibling_frames", "sibling_read:"+read)
	})
}
