package c10

// Return data as the memory opcodes see it (RETURNDATASIZE / RETURNDATACOPY, EIP-211): the buffer holds
// the output of the last call and is not affected by anything the frame does to its memory afterwards,
// nor by where the call's output area lies relative to its input area. The only callee used is the
// identity precompile (address 4), whose specification is "output = input", so the reference is a
// byte-array model of memory and of the buffer written here, independent of the node's interpreter.

import (
	"bytes"
	"fmt"
	"math/big"
	"testing"

	"pgregory.net/rapid"

	"verifharness/internal/evmh"
	"verifharness/internal/stats"
)

type rdModel struct {
	mem []byte
	rd  []byte
}

func (m *rdModel) grow(off, n int) {
	if n == 0 {
		return
	}
	need := (off + n + 31) / 32 * 32
	if need > len(m.mem) {
		m.mem = append(m.mem, make([]byte, need-len(m.mem))...)
	}
}

func pushInt(v int) []byte {
	b := big.NewInt(int64(v)).Bytes()
	if len(b) == 0 {
		b = []byte{0}
	}
	return append([]byte{byte(0x5f + len(b))}, b...)
}

const rdWindow = 0x180 // the part of memory returned and compared

func TestReturnDataAfterIdentityCalls(t *testing.T) {
	stats.Check(t, 4000, 40000, func(t *rapid.T) {
		evmh.SetProposalsUpTo(rapid.SampledFrom([]int{13, 14, 22, 26, 99}).Draw(t, "config"))
		m := &rdModel{}
		var code []byte
		var text []string
		calls, overlaps, writesAfter, copies := 0, 0, 0, 0
		lastIn := [2]int{-1, 0}
		expectFail := false
		n := rapid.IntRange(2, 10).Draw(t, "steps")
	steps:
		for i := 0; i < n; i++ {
			kind := rapid.SampledFrom([]string{"store", "store", "store8", "call", "call", "rdcopy", "rdcopy", "rdsize"}).Draw(t, "step")
			switch kind {
			case "store", "store8":
				off := rapid.IntRange(0, 160).Draw(t, "off")
				if lastIn[0] >= 0 && lastIn[1] > 0 && rapid.Bool().Draw(t, "overLastInput") {
					off = lastIn[0] + rapid.IntRange(-31, lastIn[1]-1).Draw(t, "offInInput")
					if off < 0 {
						off = 0
					}
				}
				if kind == "store" {
					w := rapid.SliceOfN(rapid.Byte(), 32, 32).Draw(t, "word")
					if rapid.Bool().Draw(t, "patterned") {
						for j := range w {
							w[j] = byte(16*(i+1) + j)
						}
					}
					code = append(code, 0x7f)
					code = append(code, w...)
					code = append(code, pushInt(off)...)
					code = append(code, 0x52)
					m.grow(off, 32)
					copy(m.mem[off:], w)
					text = append(text, fmt.Sprintf("MSTORE(%d,%x)", off, w))
				} else {
					b := rapid.Byte().Draw(t, "byte")
					code = append(code, 0x60, b)
					code = append(code, pushInt(off)...)
					code = append(code, 0x53)
					m.grow(off, 1)
					m.mem[off] = b
					text = append(text, fmt.Sprintf("MSTORE8(%d,%02x)", off, b))
				}
				if lastIn[0] >= 0 && off < lastIn[0]+lastIn[1] && off+32 > lastIn[0] {
					writesAfter++
				}
			case "call":
				op := rapid.SampledFrom([]struct {
					name string
					code byte
				}{{"STATICCALL", 0xfa}, {"CALL", 0xf1}, {"DELEGATECALL", 0xf4}, {"CALLCODE", 0xf2}}).Draw(t, "callKind")
				inOff := rapid.IntRange(0, 128).Draw(t, "inOff")
				inSize := rapid.SampledFrom([]int{0, 1, 31, 32, 33, 64}).Draw(t, "inSize")
				outOff := inOff + rapid.SampledFrom([]int{0, 1, -1, 31, 32, 33, -32, 64, 7}).Draw(t, "outDelta")
				if outOff < 0 {
					outOff = 0
				}
				outSize := rapid.SampledFrom([]int{0, 1, 31, 32, 33, 64}).Draw(t, "outSize")
				code = append(code, pushInt(outSize)...)
				code = append(code, pushInt(outOff)...)
				code = append(code, pushInt(inSize)...)
				code = append(code, pushInt(inOff)...)
				if op.name == "CALL" || op.name == "CALLCODE" {
					code = append(code, 0x60, 0x00) // value 0
				}
				code = append(code, 0x60, 0x04, 0x5a, op.code, 0x50) // address 4, GAS, call, POP status
				m.grow(inOff, inSize)
				m.grow(outOff, outSize)
				ret := []byte{}
				if inSize > 0 {
					ret = append(ret, m.mem[inOff:inOff+inSize]...)
				}
				k := outSize
				if len(ret) < k {
					k = len(ret)
				}
				if k > 0 {
					copy(m.mem[outOff:outOff+k], ret[:k])
				}
				m.rd = ret
				calls++
				lastIn = [2]int{inOff, inSize}
				if inSize > 0 && k > 0 && outOff != inOff && outOff < inOff+inSize && outOff+k > inOff {
					overlaps++
				}
				text = append(text, fmt.Sprintf("%s(identity,in=%d+%d,out=%d+%d)", op.name, inOff, inSize, outOff, outSize))
			case "rdcopy":
				memOff := rapid.IntRange(0, 200).Draw(t, "memOff")
				dataOff := rapid.IntRange(0, len(m.rd)+1).Draw(t, "dataOff")
				ln := rapid.IntRange(0, len(m.rd)+1).Draw(t, "len")
				if rapid.IntRange(0, 3).Draw(t, "whole") == 0 {
					dataOff, ln = 0, len(m.rd)
				}
				code = append(code, pushInt(ln)...)
				code = append(code, pushInt(dataOff)...)
				code = append(code, pushInt(memOff)...)
				code = append(code, 0x3e)
				text = append(text, fmt.Sprintf("RETURNDATACOPY(%d,%d,%d)", memOff, dataOff, ln))
				if dataOff+ln > len(m.rd) {
					expectFail = true // reading beyond the buffer is an exceptional halt
					break steps
				}
				if ln > 0 {
					m.grow(memOff, ln)
					copy(m.mem[memOff:], m.rd[dataOff:dataOff+ln])
					copies++
				}
			default:
				off := rapid.IntRange(0, 160).Draw(t, "sizeOff")
				code = append(code, 0x3d)
				code = append(code, pushInt(off)...)
				code = append(code, 0x52)
				m.grow(off, 32)
				w := make([]byte, 32)
				big.NewInt(int64(len(m.rd))).FillBytes(w)
				copy(m.mem[off:], w)
				text = append(text, fmt.Sprintf("MSTORE(%d,RETURNDATASIZE)", off))
			}
		}
		if !expectFail {
			// the buffer itself, then the memory window
			code = append(code, 0x3d, 0x60, 0x00)
			code = append(code, pushInt(rdWindow)...)
			code = append(code, 0x3e) // RETURNDATACOPY(rdWindow, 0, RETURNDATASIZE)
			m.grow(0, rdWindow+64)
			copy(m.mem[rdWindow:], m.rd)
			code = append(code, pushInt(rdWindow+64)...)
			code = append(code, 0x60, 0x00, 0xf3)
		}
		res := evmh.RunCode(code, nil, 50_000_000)
		ctx := fmt.Sprintf("\nprogram: %v\ncode=%x", text, code)
		if res.Panicked() {
			t.Fatalf("node EVM panicked: %v%s", res.Panic, ctx)
		}
		k := evmh.Kind(res.Err)
		if k == evmh.KindInvalidOpcode {
			stats.Case("", "returndata:opcode_not_in_this_fork")
			return
		}
		if expectFail {
			if res.Err == nil {
				t.Fatalf("RETURNDATACOPY beyond the %d bytes of return data did not fail%s", len(m.rd), ctx)
			}
			stats.Case(fmt.Sprintf("rdfail|%v", text), "returndata:copy_beyond_buffer_fails")
			return
		}
		if res.Err != nil {
			t.Fatalf("program the specification runs to completion failed: %v%s", res.Err, ctx)
		}
		m.grow(0, rdWindow+64)
		want := m.mem[:rdWindow+64]
		if !bytes.Equal(res.Ret, want) {
			at := 0
			for at < len(want) && at < len(res.Ret) && res.Ret[at] == want[at] {
				at++
			}
			where := "memory"
			if at >= rdWindow {
				where = "the return data buffer"
			}
			lo, hi := at-8, at+24
			if lo < 0 {
				lo = 0
			}
			clip := func(b []byte) []byte {
				if lo >= len(b) {
					return nil
				}
				if hi > len(b) {
					return b[lo:]
				}
				return b[lo:hi]
			}
			t.Fatalf("%s differs from the specification at byte %d of the returned window (return data = output of the last call, unaffected by later memory writes and by overlapping call areas)\n node[%d:]: %x\n spec[%d:]: %x (window = memory[0:%d] ++ return data)%s",
				where, at, lo, clip(res.Ret), lo, clip(want), rdWindow, ctx)
		}
		key := ""
		if calls > 0 && (overlaps > 0 || writesAfter > 0 || copies > 0) {
			key = fmt.Sprintf("rd|%v", text)
		}
		cls := []string{"family:returndata"}
		if overlaps > 0 {
			cls = append(cls, "returndata:call_output_overlaps_input")
		}
		if writesAfter > 0 {
			cls = append(cls, "returndata:memory_written_over_last_call_input")
		}
		if copies > 0 {
			cls = append(cls, "returndata:copied")
		}
		stats.Case(key, cls...)
		if len(text) <= 4 && calls > 0 {
			stats.Sample(map[string]interface{}{"family": "returndata", "program": text})
		}
	})
}
