package c10

import (
	"bytes"
	"fmt"
	"testing"

	"pgregory.net/rapid"

	"verifharness/internal/evmh"
	"verifharness/internal/ref"
	"verifharness/internal/stats"
)

func p2(v int) []byte { return []byte{0x61, byte(v >> 8), byte(v)} }

// polluter: an init code of generated length that takes one jump over PUSH data full of 0x5b bytes and
// deploys nothing. Whatever the interpreter remembers about it must not leak into the next init code.
func genPolluter(t *rapid.T) []byte {
	var c []byte
	c = append(c, 0x61, 0, 0, 0x56) // PUSH2 target JUMP
	for i, n := 0, rapid.IntRange(0, 12).Draw(t, "polluterJunk"); i < n; i++ {
		if rapid.Bool().Draw(t, "polluterWide") {
			c = append(c, 0x7f)
			c = append(c, bytes.Repeat([]byte{0x5b}, 32)...)
			c = append(c, 0x50)
		} else {
			c = append(c, 0x60, 0x5b, 0x50)
		}
	}
	c[1], c[2] = byte(len(c)>>8), byte(len(c))
	c = append(c, 0x5b, 0x00) // JUMPDEST STOP
	return c
}

// TestProgramsAsSecondInitCode runs the generated computational programs as CREATE init code, after a
// different init code (which jumped) was created in the same frame. The deployed code is the program's
// output, so the comparison with the reference interpreter is the same as for a plain call: jumps must
// be validated against the program's own code, not against anything remembered from the first one.
func TestProgramsAsSecondInitCode(t *testing.T) {
	stats.Check(t, 2500, 25000, func(t *rapid.T) {
		_, p := genProgram(t)
		p.calldata = nil
		code, _ := p.build()
		r := ref.RunEVM(code, ref.EVMConfig{CallData: nil, MemSoft: memSoft, MemHard: memHard, StepLimit: stepLimit, ProbePC: -1})
		if r.Kind == ref.EVMIndeterminate || r.Kind == ref.EVMStepLimit || r.Kind == ref.EVMUnsupported {
			stats.Case("", "init_skipped:"+r.Kind)
			return
		}
		if len(code) > 0xff00 {
			return
		}
		polluter := genPolluter(t)
		inits := [][]byte{polluter, code}
		// parent: CREATE(polluter); CREATE(program) -> addr; return [addr(32)] ++ code(addr)
		progLen := 20*2 + 1 + 4 + (1+1+3+3+1+1) + (1 + 3 + 1 + 3 + 1)
		var prog []byte
		off := progLen
		for i, in := range inits {
			prog = append(prog, p2(len(in))...)
			prog = append(prog, p2(off)...)
			prog = append(prog, p2(0)...)
			prog = append(prog, 0x39)
			prog = append(prog, p2(len(in))...)
			prog = append(prog, p2(0)...)
			prog = append(prog, p2(0)...)
			prog = append(prog, 0xf0)
			if i == 0 {
				prog = append(prog, 0x50) // drop the polluter's address
			}
			off += len(in)
		}
		// stack: addr. MSTORE(0, addr)
		prog = append(prog, 0x80, 0x60, 0x00, 0x52) // DUP1 PUSH1 0 MSTORE
		// EXTCODECOPY(addr, dest 32, offset 0, size EXTCODESIZE(addr))
		prog = append(prog, 0x80, 0x3b)             // DUP1 EXTCODESIZE      -> addr size
		prog = append(prog, p2(0)...)               // offset 0              -> addr size 0
		prog = append(prog, p2(32)...)              // dest 32               -> addr size 0 32
		prog = append(prog, 0x83, 0x3c)             // DUP4 (addr) EXTCODECOPY -> addr
		prog = append(prog, 0x3b)                   // EXTCODESIZE(addr)     -> size
		prog = append(prog, p2(32)...)              //                          size 32
		prog = append(prog, 0x01)                   // ADD                   -> size+32
		prog = append(prog, p2(0)...)               //                          size+32 0
		prog = append(prog, 0xf3)                   // RETURN(0, size+32)
		if len(prog) != progLen {
			t.Fatalf("harness: parent length %d != %d", len(prog), progLen)
		}
		for _, in := range inits {
			prog = append(prog, in...)
		}
		// the program (2nd CREATE) receives 63/64 of what is left: about gasAmple, the amount the reference's
		// memory thresholds (must succeed below memSoft, must run out of gas above memHard) were derived for
		gas := uint64(gasAmple)/63*64 + 100000000
		st := evmh.NewState()
		evmh.Install(st, evmh.Contract, prog)
		res := evmh.Call(st, evmh.NewContext(evmh.Origin, gas), evmh.Origin, evmh.Contract, nil, gas, nil)
		ctx := fmt.Sprintf("\nprogram (as 2nd init code): %s\ncode=%x\npolluter=%x\nreference: kind=%s last pc=%d", p.text(), code, polluter, r.Kind, r.FailPC)
		if res.Panicked() {
			t.Fatalf("node EVM panicked: %v%s", res.Panic, ctx)
		}
		if res.Err != nil || len(res.Ret) < 32 {
			t.Fatalf("parent frame failed: %v ret=%x%s", res.Err, res.Ret, ctx)
		}
		created := !bytes.Equal(res.Ret[:32], make([]byte, 32))
		deployed := res.Ret[32:]
		want := refToKind(r.Kind)
		switch {
		case want == evmh.KindOK && len(r.Output) <= 24576:
			if !created {
				t.Fatalf("init code that the specification runs to completion was not created%s", ctx)
			}
			if !bytes.Equal(deployed, r.Output) {
				t.Fatalf("deployed code differs from the reference output:\n node: %s\n  ref: %s%s", decodeDump(deployed), decodeDump(r.Output), ctx)
			}
		case want == evmh.KindOK:
			// oversized output: creation must fail
			if created {
				t.Fatalf("code of %d bytes was deployed%s", len(r.Output), ctx)
			}
		default:
			if created {
				t.Fatalf("init code that must halt with %s was created (deployed %s)%s", r.Kind, decodeDump(deployed), ctx)
			}
		}
		key := ""
		if r.TakenJumps > 0 || r.Kind == ref.EVMBadJump {
			key = fmt.Sprintf("init2|%s|%d|%x", r.Kind, len(polluter), code)
		}
		stats.Case(key, "initcode_kind:"+r.Kind)
	})
}
