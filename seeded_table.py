#!/usr/bin/env python3
"""Rewrites the seeded-changes table in DESIGN.md (between the SEEDED-TABLE markers) from seeded/*/meta.json."""
import json, glob, re, os
V=os.path.dirname(os.path.abspath(__file__))
rows=[]
for f in sorted(glob.glob(V+'/seeded/*/meta.json')):
    m=json.load(open(f)); d=os.path.basename(os.path.dirname(f))
    res=m.get('check_result','?')
    first='SURVIVED first, check strengthened, now KILLED' if 'after strengthening' in res else res.split(' ')[0]
    note=''
    mm=re.search(r'first run SURVIVED;?\s*(.*)\)$',res)
    if mm: note=mm.group(1)
    needs=(m.get('what_it_needs_to_manifest') or '')
    if isinstance(needs,list): needs=' '.join(needs)
    rows.append(f"| {d} | {m.get('title','').replace('|','/')} | {needs[:260].replace('|','/').replace(chr(10),' ')} | {first} | {note.replace('|','/')} |")
tbl="| seeded change | what was broken | what it needs to manifest | result of `./check <ID> quick` | what was strengthened |\n|---|---|---|---|---|\n"+"\n".join(rows)
p=V+'/DESIGN.md'; s=open(p).read()
a,b='<!-- SEEDED-TABLE-BEGIN -->','<!-- SEEDED-TABLE-END -->'
if a not in s:
    s+=f"\n### 6.5 Independently seeded changes\n\nEach change below was written by a fresh sub-agent that saw only the property text and its own scratch worktree of /repo\n(nothing from /verif). Before being kept it was confirmed here in a scratch worktree (`./seed_accept.sh`): the patch applies and\nbuilds with and without the `verif` tag, its demonstration fails with it and passes without it, and the pinned stable tests of the\ntouched packages still pass. `patch.diff`, the demonstration and `meta.json` are under /verif/seeded/<id>/; `./selftest <ID>` re-runs\nthe property's quick check against every seeded change of that property.\n\n{a}\n{b}\n"
s=s[:s.index(a)+len(a)]+"\n"+tbl+"\n"+s[s.index(b):]
open(p,'w').write(s)
print(len(rows),'rows')
